//! anthem bridge: a line-oriented server exposing the *real* anthem functions.
//!
//! One request per line (an S-expression `(op args...)`), one response per line:
//! `(ok ...)`, `(err "message")` or `(panic "message")`. The bridge contains no
//! logic of its own beyond (de)serialising anthem's public syntax trees.
mod conv;
mod sexp;

use {
    anthem::{
        analyzing::{regularity::Regularity as _, tightness::Tightness as _},
        convenience::{apply::Apply as _, compose::Compose as _},
        syntax_tree::{asp::mini_gringo as asp, fol::sigma_0 as fol},
        translating::{
            classical_reduction::{
                completion::Completion as _,
                gamma::{Gamma as _, Here as _, There as _},
            },
            formula_representation::{mu::Mu as _, natural::Natural as _, tau_star::TauStar as _},
        },
        verif,
    },
    conv::*,
    either::Either,
    indexmap::IndexSet,
    sexp::S,
    std::{
        io::{self, BufRead as _, Write as _},
        panic::{AssertUnwindSafe, catch_unwind},
    },
};

type R<T> = Result<T, String>;

fn arg<'a>(s: &'a S, i: usize) -> R<&'a S> {
    s.args().get(i).ok_or_else(|| format!("missing argument {i}"))
}

fn text<'a>(s: &'a S, i: usize) -> R<&'a str> {
    arg(s, i)?.as_str()
}

fn flag(s: &S, i: usize) -> R<bool> {
    match text(s, i)? {
        "true" => Ok(true),
        "false" => Ok(false),
        x => Err(format!("bad flag {x}")),
    }
}

fn parse_program(t: &str) -> R<asp::Program> {
    t.parse::<asp::Program>().map_err(|e| format!("parse error (program): {e}"))
}

fn direction(t: &str) -> R<fol::Direction> {
    match t {
        "universal" => Ok(fol::Direction::Universal),
        "forward" => Ok(fol::Direction::Forward),
        "backward" => Ok(fol::Direction::Backward),
        x => Err(format!("bad direction {x}")),
    }
}

fn decomposition(t: &str) -> R<verif::Decomposition> {
    match t {
        "independent" => Ok(verif::Decomposition::Independent),
        "sequential" => Ok(verif::Decomposition::Sequential),
        x => Err(format!("bad decomposition {x}")),
    }
}

fn representation(t: &str) -> R<verif::FormulaRepresentation> {
    match t {
        "tau-star" => Ok(verif::FormulaRepresentation::TauStar),
        "mu" => Ok(verif::FormulaRepresentation::Mu),
        x => Err(format!("bad formula representation {x}")),
    }
}

fn portfolio(name: &str) -> R<Vec<fn(fol::Formula) -> fol::Formula>> {
    // exactly as command_line/procedures.rs composes them
    Ok(match name {
        "classic" => [verif::INTUITIONISTIC, verif::HT, verif::CLASSIC].concat(),
        "ht" => [verif::INTUITIONISTIC, verif::HT].concat(),
        "intuitionistic" => [verif::INTUITIONISTIC].concat(),
        x => return Err(format!("bad portfolio {x}")),
    })
}

fn rewrite_by_name(name: &str) -> R<fn(fol::Formula) -> fol::Formula> {
    if let Some(i) = verif::INTUITIONISTIC_NAMES.iter().position(|n| *n == name) {
        return Ok(verif::INTUITIONISTIC[i]);
    }
    if let Some(i) = verif::CLASSIC_NAMES.iter().position(|n| *n == name) {
        return Ok(verif::CLASSIC[i]);
    }
    Err(format!("unknown rewrite {name}"))
}

fn problem_s(p: &verif::Problem) -> S {
    let formulas = p
        .formulas
        .iter()
        .map(|f| {
            S::l(
                "pf",
                vec![
                    S::s(f.name.clone()),
                    S::a(match f.role {
                        verif::Role::Axiom => "axiom",
                        verif::Role::Conjecture => "conjecture",
                    }),
                    formula_s(&f.formula),
                    S::s(anthem::formatting::fol::sigma_0::tptp::Format(&f.formula).to_string()),
                ],
            )
        })
        .collect();
    S::l(
        "problem",
        vec![S::s(p.name.clone()), S::L(formulas), S::s(p.to_string())],
    )
}

fn handle(req: &S) -> R<S> {
    let op = req.tag().ok_or("request must be a tagged list")?;
    match op {
        "ping" => Ok(S::l("ok", vec![S::a("pong")])),

        // ------------------------------------------------------------ parsing / printing
        "parse_program" => Ok(S::l("ok", vec![program_s(&parse_program(text(req, 0)?)?)])),
        "parse_formula" => {
            let f = text(req, 0)?.parse::<fol::Formula>().map_err(|e| format!("parse error: {e}"))?;
            Ok(S::l("ok", vec![formula_s(&f)]))
        }
        "parse_theory" => {
            let t = text(req, 0)?.parse::<fol::Theory>().map_err(|e| format!("parse error: {e}"))?;
            Ok(S::l("ok", vec![theory_s(&t)]))
        }
        "parse_spec" => {
            let t = text(req, 0)?
                .parse::<fol::Specification>()
                .map_err(|e| format!("parse error: {e}"))?;
            Ok(S::l("ok", vec![spec_s(&t)]))
        }
        "parse_ug" => {
            let t = text(req, 0)?.parse::<fol::UserGuide>().map_err(|e| format!("parse error: {e}"))?;
            Ok(S::l("ok", vec![ug_s(&t)]))
        }
        "parse_gterm" => {
            let t = text(req, 0)?.parse::<fol::GeneralTerm>().map_err(|e| format!("parse error: {e}"))?;
            Ok(S::l("ok", vec![gt_s(&t)]))
        }
        "fmt_formula" => Ok(S::l("ok", vec![S::s(s_formula(arg(req, 0)?)?.to_string())])),
        "fmt_theory" => Ok(S::l("ok", vec![S::s(s_theory(arg(req, 0)?)?.to_string())])),
        "tptp_formula" => {
            let f = s_formula(arg(req, 0)?)?;
            Ok(S::l(
                "ok",
                vec![S::s(anthem::formatting::fol::sigma_0::tptp::Format(&f).to_string())],
            ))
        }
        "free_variables" => {
            let f = s_formula(arg(req, 0)?)?;
            Ok(S::l("ok", vec![S::L(f.free_variables().iter().map(var_s).collect())]))
        }

        // ------------------------------------------------------------ translations
        "tau_star" => {
            let p = parse_program(text(req, 0)?)?;
            let globals = verif::choose_fresh_global_variables(&p);
            let per_rule: Vec<S> =
                p.rules.iter().map(|r| formula_s(&verif::tau_star_rule(r, &globals))).collect();
            let theory = p.clone().tau_star();
            Ok(S::l(
                "ok",
                vec![
                    program_s(&p),
                    theory_s(&theory),
                    S::L(globals.into_iter().map(S::s).collect()),
                    S::L(per_rule),
                    S::s(theory.to_string()),
                ],
            ))
        }
        "natural" => {
            let p = parse_program(text(req, 0)?)?;
            let per_rule: Vec<S> = p
                .rules
                .iter()
                .map(|r| match verif::natural_rule(r) {
                    Some(f) => S::l("some", vec![formula_s(&f)]),
                    None => S::l("none", vec![]),
                })
                .collect();
            let whole = match p.clone().natural() {
                Some(t) => S::l("some", vec![theory_s(&t), S::s(t.to_string())]),
                None => S::l("none", vec![]),
            };
            Ok(S::l(
                "ok",
                vec![program_s(&p), S::L(per_rule), whole, S::a(&p.is_regular().to_string())],
            ))
        }
        "mu" => {
            let p = parse_program(text(req, 0)?)?;
            let t = p.clone().mu();
            Ok(S::l("ok", vec![program_s(&p), theory_s(&t), S::s(t.to_string())]))
        }
        "is_tight" => {
            let p = parse_program(text(req, 0)?)?;
            Ok(S::l("ok", vec![S::a(&p.is_tight().to_string())]))
        }
        "gamma" => {
            let f = s_formula(arg(req, 0)?)?;
            Ok(S::l("ok", vec![formula_s(&f.gamma())]))
        }
        "here" => {
            let f = s_formula(arg(req, 0)?)?;
            Ok(S::l("ok", vec![formula_s(&f.here())]))
        }
        "there" => {
            let f = s_formula(arg(req, 0)?)?;
            Ok(S::l("ok", vec![formula_s(&f.there())]))
        }
        "completion" => {
            let t = s_theory(arg(req, 0)?)?;
            let inputs: IndexSet<fol::Predicate> =
                arg(req, 1)?.as_list()?.iter().map(s_pred).collect::<R<_>>()?;
            Ok(S::l(
                "ok",
                vec![match t.completion(inputs) {
                    Some(c) => S::l("some", vec![theory_s(&c), S::s(c.to_string())]),
                    None => S::l("none", vec![]),
                }],
            ))
        }

        // ------------------------------------------------------------ substitution / closure
        "substitute" => {
            let f = s_formula(arg(req, 0)?)?;
            let v = s_var(arg(req, 1)?)?;
            let t = s_gt(arg(req, 2)?)?;
            Ok(S::l("ok", vec![formula_s(&f.substitute(v, t))]))
        }
        "universal_closure" => {
            let f = s_formula(arg(req, 0)?)?;
            Ok(S::l("ok", vec![formula_s(&f.universal_closure())]))
        }

        // ------------------------------------------------------------ simplification
        "simplify" => {
            let pf = portfolio(text(req, 0)?)?;
            let strategy = text(req, 1)?.to_string();
            let f = s_formula(arg(req, 2)?)?;
            let mut simplification = pf.into_iter().compose();
            let out = match strategy.as_str() {
                "shallow" => simplification(f),
                "recursive" => f.apply(&mut simplification),
                "fixpoint" => f.apply_fixpoint(&mut simplification),
                x => return Err(format!("bad strategy {x}")),
            };
            Ok(S::l("ok", vec![formula_s(&out)]))
        }
        "rewrite" => {
            let rw = rewrite_by_name(text(req, 0)?)?;
            let f = s_formula(arg(req, 1)?)?;
            Ok(S::l("ok", vec![formula_s(&rw(f))]))
        }
        "rewrite_names" => Ok(S::l(
            "ok",
            vec![
                S::L(verif::INTUITIONISTIC_NAMES.iter().map(|n| S::s(*n)).collect()),
                S::L(verif::CLASSIC_NAMES.iter().map(|n| S::s(*n)).collect()),
            ],
        )),
        "break_equivalences" => {
            let f = s_formula(arg(req, 0)?)?;
            Ok(S::l("ok", vec![theory_s(&verif::break_equivalences_formula(f))]))
        }

        // ------------------------------------------------------------ tasks
        "strong_task" => {
            use verif::Task as _;
            let task = verif::StrongEquivalenceTask {
                left: parse_program(text(req, 0)?)?,
                right: parse_program(text(req, 1)?)?,
                formula_representation: representation(text(req, 2)?)?,
                direction: direction(text(req, 3)?)?,
                decomposition: decomposition(text(req, 4)?)?,
                simplify: flag(req, 5)?,
                break_equivalences: flag(req, 6)?,
            };
            match task.decompose() {
                Ok(w) => Ok(S::l("ok", vec![S::L(w.data.iter().map(problem_s).collect())])),
                Err(e) => Ok(S::l("ok", vec![S::l("refused", vec![S::s(e.to_string())])])),
            }
        }
        "external_task" => {
            use verif::Task as _;
            let specification = match text(req, 0)? {
                "program" => Either::Left(parse_program(text(req, 1)?)?),
                "spec" => Either::Right(
                    text(req, 1)?
                        .parse::<fol::Specification>()
                        .map_err(|e| format!("parse error (specification): {e}"))?,
                ),
                x => return Err(format!("bad specification kind {x}")),
            };
            let task = verif::ExternalEquivalenceTask {
                specification,
                program: parse_program(text(req, 2)?)?,
                user_guide: text(req, 3)?
                    .parse::<fol::UserGuide>()
                    .map_err(|e| format!("parse error (user guide): {e}"))?,
                proof_outline: text(req, 4)?
                    .parse::<fol::Specification>()
                    .map_err(|e| format!("parse error (proof outline): {e}"))?,
                formula_representation: verif::FormulaRepresentation::TauStar,
                direction: direction(text(req, 5)?)?,
                decomposition: decomposition(text(req, 6)?)?,
                simplify: flag(req, 7)?,
                break_equivalences: flag(req, 8)?,
                bypass_tightness: flag(req, 9)?,
            };
            match task.decompose() {
                Ok(w) => Ok(S::l(
                    "ok",
                    vec![
                        S::L(w.data.iter().map(problem_s).collect()),
                        S::L(w.warnings.iter().map(|x| S::s(x.to_string())).collect()),
                    ],
                )),
                Err(e) => Ok(S::l("ok", vec![S::l("refused", vec![S::s(format!("{e:?}"))])])),
            }
        }
        "preamble" => Ok(S::l("ok", vec![S::s(verif::Interpretation::Standard.to_string())])),

        x => Err(format!("unknown operation {x}")),
    }
}

fn main() {
    std::panic::set_hook(Box::new(|_| {})); // panics are reported in-band
    let stdin = io::stdin();
    let stdout = io::stdout();
    let mut out = stdout.lock();
    for line in stdin.lock().lines() {
        let line = match line {
            Ok(l) => l,
            Err(_) => break,
        };
        if line.trim().is_empty() {
            continue;
        }
        let resp = match sexp::parse(&line) {
            Err(e) => S::l("err", vec![S::s(format!("bad request: {e}"))]),
            Ok(req) => match catch_unwind(AssertUnwindSafe(|| handle(&req))) {
                Ok(Ok(s)) => s,
                Ok(Err(e)) => S::l("err", vec![S::s(e)]),
                Err(p) => {
                    let msg = if let Some(s) = p.downcast_ref::<&str>() {
                        s.to_string()
                    } else if let Some(s) = p.downcast_ref::<String>() {
                        s.clone()
                    } else {
                        "panic".to_string()
                    };
                    S::l("panic", vec![S::s(msg)])
                }
            },
        };
        let _ = writeln!(out, "{}", resp.render());
        let _ = out.flush();
    }
}
