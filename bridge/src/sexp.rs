//! Minimal S-expression reader/writer (atoms, "strings", lists).
use std::fmt::Write as _;

#[derive(Clone, Debug, PartialEq)]
pub enum S {
    A(String),
    Str(String),
    L(Vec<S>),
}

impl S {
    pub fn a(s: &str) -> S {
        S::A(s.to_string())
    }
    pub fn s<T: Into<String>>(s: T) -> S {
        S::Str(s.into())
    }
    pub fn l(tag: &str, mut rest: Vec<S>) -> S {
        let mut v = vec![S::a(tag)];
        v.append(&mut rest);
        S::L(v)
    }
    pub fn tag(&self) -> Option<&str> {
        match self {
            S::L(v) => match v.first() {
                Some(S::A(t)) => Some(t.as_str()),
                _ => None,
            },
            _ => None,
        }
    }
    pub fn args(&self) -> &[S] {
        match self {
            S::L(v) if !v.is_empty() => &v[1..],
            _ => &[],
        }
    }
    pub fn as_str(&self) -> Result<&str, String> {
        match self {
            S::Str(s) | S::A(s) => Ok(s.as_str()),
            _ => Err(format!("expected string, got {}", self.render())),
        }
    }
    pub fn as_list(&self) -> Result<&[S], String> {
        match self {
            S::L(v) => Ok(v.as_slice()),
            _ => Err(format!("expected list, got {}", self.render())),
        }
    }
    pub fn render(&self) -> String {
        let mut out = String::new();
        self.write(&mut out);
        out
    }
    fn write(&self, out: &mut String) {
        match self {
            S::A(a) => out.push_str(a),
            S::Str(s) => {
                out.push('"');
                for c in s.chars() {
                    match c {
                        '"' => out.push_str("\\\""),
                        '\\' => out.push_str("\\\\"),
                        '\n' => out.push_str("\\n"),
                        '\r' => out.push_str("\\r"),
                        '\t' => out.push_str("\\t"),
                        c if (c as u32) < 0x20 => {
                            let _ = write!(out, "\\u{:04x}", c as u32);
                        }
                        c => out.push(c),
                    }
                }
                out.push('"');
            }
            S::L(v) => {
                out.push('(');
                for (i, x) in v.iter().enumerate() {
                    if i > 0 {
                        out.push(' ');
                    }
                    x.write(out);
                }
                out.push(')');
            }
        }
    }
}

pub fn parse(input: &str) -> Result<S, String> {
    let chars: Vec<char> = input.chars().collect();
    let mut pos = 0;
    let r = parse_at(&chars, &mut pos)?;
    skip_ws(&chars, &mut pos);
    if pos != chars.len() {
        return Err(format!("trailing input at {pos}"));
    }
    Ok(r)
}

fn skip_ws(c: &[char], pos: &mut usize) {
    while *pos < c.len() && c[*pos].is_whitespace() {
        *pos += 1;
    }
}

fn parse_at(c: &[char], pos: &mut usize) -> Result<S, String> {
    skip_ws(c, pos);
    if *pos >= c.len() {
        return Err("unexpected end".into());
    }
    match c[*pos] {
        '(' => {
            *pos += 1;
            let mut v = Vec::new();
            loop {
                skip_ws(c, pos);
                if *pos >= c.len() {
                    return Err("unterminated list".into());
                }
                if c[*pos] == ')' {
                    *pos += 1;
                    return Ok(S::L(v));
                }
                v.push(parse_at(c, pos)?);
            }
        }
        ')' => Err(format!("unexpected ) at {pos}")),
        '"' => {
            *pos += 1;
            let mut s = String::new();
            loop {
                if *pos >= c.len() {
                    return Err("unterminated string".into());
                }
                let ch = c[*pos];
                *pos += 1;
                match ch {
                    '"' => return Ok(S::Str(s)),
                    '\\' => {
                        if *pos >= c.len() {
                            return Err("bad escape".into());
                        }
                        let e = c[*pos];
                        *pos += 1;
                        match e {
                            'n' => s.push('\n'),
                            'r' => s.push('\r'),
                            't' => s.push('\t'),
                            '"' => s.push('"'),
                            '\\' => s.push('\\'),
                            'u' => {
                                if *pos + 4 > c.len() {
                                    return Err("bad \\u".into());
                                }
                                let hex: String = c[*pos..*pos + 4].iter().collect();
                                *pos += 4;
                                let n = u32::from_str_radix(&hex, 16).map_err(|e| e.to_string())?;
                                s.push(char::from_u32(n).ok_or("bad code point")?);
                            }
                            other => return Err(format!("bad escape \\{other}")),
                        }
                    }
                    ch => s.push(ch),
                }
            }
        }
        _ => {
            let start = *pos;
            while *pos < c.len() && !c[*pos].is_whitespace() && c[*pos] != '(' && c[*pos] != ')' && c[*pos] != '"' {
                *pos += 1;
            }
            Ok(S::A(c[start..*pos].iter().collect()))
        }
    }
}
