//! Conversions between anthem's public syntax trees and S-expressions.
//! Pure (de)serialisation; no logic about the trees.
use crate::sexp::S;
use anthem::syntax_tree::{asp::mini_gringo as asp, fol::sigma_0 as fol};

type R<T> = Result<T, String>;

// ---------------------------------------------------------------- fol -> S

pub fn sort_s(s: fol::Sort) -> S {
    S::a(match s {
        fol::Sort::General => "g",
        fol::Sort::Integer => "i",
        fol::Sort::Symbol => "s",
    })
}

pub fn it_s(t: &fol::IntegerTerm) -> S {
    match t {
        fol::IntegerTerm::Numeral(n) => S::l("num", vec![S::a(&n.to_string())]),
        fol::IntegerTerm::FunctionConstant(c) => S::l("ifc", vec![S::s(c.clone())]),
        fol::IntegerTerm::Variable(v) => S::l("ivar", vec![S::s(v.clone())]),
        fol::IntegerTerm::UnaryOperation { op, arg } => match op {
            fol::UnaryOperator::Negative => S::l("neg", vec![it_s(arg)]),
        },
        fol::IntegerTerm::BinaryOperation { op, lhs, rhs } => S::l(
            match op {
                fol::BinaryOperator::Add => "add",
                fol::BinaryOperator::Subtract => "sub",
                fol::BinaryOperator::Multiply => "mul",
            },
            vec![it_s(lhs), it_s(rhs)],
        ),
    }
}

pub fn st_s(t: &fol::SymbolicTerm) -> S {
    match t {
        fol::SymbolicTerm::Symbol(s) => S::l("sym", vec![S::s(s.clone())]),
        fol::SymbolicTerm::FunctionConstant(c) => S::l("sfc", vec![S::s(c.clone())]),
        fol::SymbolicTerm::Variable(v) => S::l("svar", vec![S::s(v.clone())]),
    }
}

pub fn gt_s(t: &fol::GeneralTerm) -> S {
    match t {
        fol::GeneralTerm::Infimum => S::l("inf", vec![]),
        fol::GeneralTerm::Supremum => S::l("sup", vec![]),
        fol::GeneralTerm::FunctionConstant(c) => S::l("gfc", vec![S::s(c.clone())]),
        fol::GeneralTerm::Variable(v) => S::l("gvar", vec![S::s(v.clone())]),
        fol::GeneralTerm::IntegerTerm(t) => it_s(t),
        fol::GeneralTerm::SymbolicTerm(t) => st_s(t),
    }
}

pub fn rel_s(r: &fol::Relation) -> S {
    S::s(match r {
        fol::Relation::Equal => "=",
        fol::Relation::NotEqual => "!=",
        fol::Relation::Greater => ">",
        fol::Relation::Less => "<",
        fol::Relation::GreaterEqual => ">=",
        fol::Relation::LessEqual => "<=",
    })
}

pub fn var_s(v: &fol::Variable) -> S {
    S::L(vec![S::s(v.name.clone()), sort_s(v.sort)])
}

pub fn pred_s(p: &fol::Predicate) -> S {
    S::L(vec![S::s(p.symbol.clone()), S::a(&p.arity.to_string())])
}

pub fn formula_s(f: &fol::Formula) -> S {
    match f {
        fol::Formula::AtomicFormula(a) => match a {
            fol::AtomicFormula::Truth => S::l("true", vec![]),
            fol::AtomicFormula::Falsity => S::l("false", vec![]),
            fol::AtomicFormula::Atom(a) => {
                let mut v = vec![S::s(a.predicate_symbol.clone())];
                v.extend(a.terms.iter().map(gt_s));
                S::l("atom", v)
            }
            fol::AtomicFormula::Comparison(c) => {
                let mut v = vec![gt_s(&c.term)];
                for g in &c.guards {
                    v.push(rel_s(&g.relation));
                    v.push(gt_s(&g.term));
                }
                S::l("cmp", v)
            }
        },
        fol::Formula::UnaryFormula { connective, formula } => match connective {
            fol::UnaryConnective::Negation => S::l("not", vec![formula_s(formula)]),
        },
        fol::Formula::BinaryFormula { connective, lhs, rhs } => S::l(
            match connective {
                fol::BinaryConnective::Conjunction => "and",
                fol::BinaryConnective::Disjunction => "or",
                fol::BinaryConnective::Implication => "imp",
                fol::BinaryConnective::ReverseImplication => "rimp",
                fol::BinaryConnective::Equivalence => "iff",
            },
            vec![formula_s(lhs), formula_s(rhs)],
        ),
        fol::Formula::QuantifiedFormula { quantification, formula } => S::l(
            match quantification.quantifier {
                fol::Quantifier::Forall => "forall",
                fol::Quantifier::Exists => "exists",
            },
            vec![
                S::L(quantification.variables.iter().map(var_s).collect()),
                formula_s(formula),
            ],
        ),
    }
}

pub fn theory_s(t: &fol::Theory) -> S {
    S::l("theory", t.formulas.iter().map(formula_s).collect())
}

pub fn role_s(r: fol::Role) -> S {
    S::a(match r {
        fol::Role::Assumption => "assumption",
        fol::Role::Spec => "spec",
        fol::Role::Lemma => "lemma",
        fol::Role::Definition => "definition",
        fol::Role::InductiveLemma => "inductive-lemma",
    })
}

pub fn direction_s(d: fol::Direction) -> S {
    S::a(match d {
        fol::Direction::Universal => "universal",
        fol::Direction::Forward => "forward",
        fol::Direction::Backward => "backward",
    })
}

pub fn anf_s(a: &fol::AnnotatedFormula) -> S {
    S::l(
        "anf",
        vec![role_s(a.role), direction_s(a.direction), S::s(a.name.clone()), formula_s(&a.formula)],
    )
}

pub fn spec_s(s: &fol::Specification) -> S {
    S::l("spec", s.formulas.iter().map(anf_s).collect())
}

pub fn ug_s(u: &fol::UserGuide) -> S {
    S::l(
        "ug",
        u.entries
            .iter()
            .map(|e| match e {
                fol::UserGuideEntry::InputPredicate(p) => S::l("input", vec![pred_s(p)]),
                fol::UserGuideEntry::OutputPredicate(p) => S::l("output", vec![pred_s(p)]),
                fol::UserGuideEntry::PlaceholderDeclaration(p) => {
                    S::l("placeholder", vec![S::s(p.name.clone()), sort_s(p.sort)])
                }
                fol::UserGuideEntry::AnnotatedFormula(a) => anf_s(a),
            })
            .collect(),
    )
}

// ---------------------------------------------------------------- S -> fol

fn arg<'a>(s: &'a S, i: usize) -> R<&'a S> {
    s.args().get(i).ok_or_else(|| format!("missing argument {i} in {}", s.render()))
}

pub fn s_sort(s: &S) -> R<fol::Sort> {
    match s.as_str()? {
        "g" => Ok(fol::Sort::General),
        "i" => Ok(fol::Sort::Integer),
        "s" => Ok(fol::Sort::Symbol),
        x => Err(format!("bad sort {x}")),
    }
}

pub fn s_it(s: &S) -> R<fol::IntegerTerm> {
    match s.tag() {
        Some("num") => Ok(fol::IntegerTerm::Numeral(
            arg(s, 0)?.as_str()?.parse::<isize>().map_err(|e| e.to_string())?,
        )),
        Some("ifc") => Ok(fol::IntegerTerm::FunctionConstant(arg(s, 0)?.as_str()?.to_string())),
        Some("ivar") => Ok(fol::IntegerTerm::Variable(arg(s, 0)?.as_str()?.to_string())),
        Some("neg") => Ok(fol::IntegerTerm::UnaryOperation {
            op: fol::UnaryOperator::Negative,
            arg: Box::new(s_it(arg(s, 0)?)?),
        }),
        Some(t @ ("add" | "sub" | "mul")) => Ok(fol::IntegerTerm::BinaryOperation {
            op: match t {
                "add" => fol::BinaryOperator::Add,
                "sub" => fol::BinaryOperator::Subtract,
                _ => fol::BinaryOperator::Multiply,
            },
            lhs: Box::new(s_it(arg(s, 0)?)?),
            rhs: Box::new(s_it(arg(s, 1)?)?),
        }),
        _ => Err(format!("bad integer term {}", s.render())),
    }
}

pub fn s_gt(s: &S) -> R<fol::GeneralTerm> {
    match s.tag() {
        Some("inf") => Ok(fol::GeneralTerm::Infimum),
        Some("sup") => Ok(fol::GeneralTerm::Supremum),
        Some("gfc") => Ok(fol::GeneralTerm::FunctionConstant(arg(s, 0)?.as_str()?.to_string())),
        Some("gvar") => Ok(fol::GeneralTerm::Variable(arg(s, 0)?.as_str()?.to_string())),
        Some("sym") => Ok(fol::GeneralTerm::SymbolicTerm(fol::SymbolicTerm::Symbol(
            arg(s, 0)?.as_str()?.to_string(),
        ))),
        Some("sfc") => Ok(fol::GeneralTerm::SymbolicTerm(fol::SymbolicTerm::FunctionConstant(
            arg(s, 0)?.as_str()?.to_string(),
        ))),
        Some("svar") => Ok(fol::GeneralTerm::SymbolicTerm(fol::SymbolicTerm::Variable(
            arg(s, 0)?.as_str()?.to_string(),
        ))),
        _ => Ok(fol::GeneralTerm::IntegerTerm(s_it(s)?)),
    }
}

pub fn s_rel(s: &S) -> R<fol::Relation> {
    match s.as_str()? {
        "=" => Ok(fol::Relation::Equal),
        "!=" => Ok(fol::Relation::NotEqual),
        ">" => Ok(fol::Relation::Greater),
        "<" => Ok(fol::Relation::Less),
        ">=" => Ok(fol::Relation::GreaterEqual),
        "<=" => Ok(fol::Relation::LessEqual),
        x => Err(format!("bad relation {x}")),
    }
}

pub fn s_var(s: &S) -> R<fol::Variable> {
    let l = s.as_list()?;
    if l.len() != 2 {
        return Err(format!("bad variable {}", s.render()));
    }
    Ok(fol::Variable { name: l[0].as_str()?.to_string(), sort: s_sort(&l[1])? })
}

pub fn s_pred(s: &S) -> R<fol::Predicate> {
    let l = s.as_list()?;
    if l.len() != 2 {
        return Err(format!("bad predicate {}", s.render()));
    }
    Ok(fol::Predicate {
        symbol: l[0].as_str()?.to_string(),
        arity: l[1].as_str()?.parse::<usize>().map_err(|e| e.to_string())?,
    })
}

pub fn s_formula(s: &S) -> R<fol::Formula> {
    use fol::Formula as F;
    match s.tag() {
        Some("true") => Ok(F::AtomicFormula(fol::AtomicFormula::Truth)),
        Some("false") => Ok(F::AtomicFormula(fol::AtomicFormula::Falsity)),
        Some("atom") => {
            let a = s.args();
            let name = arg(s, 0)?.as_str()?.to_string();
            let terms = a[1..].iter().map(s_gt).collect::<R<Vec<_>>>()?;
            Ok(F::AtomicFormula(fol::AtomicFormula::Atom(fol::Atom { predicate_symbol: name, terms })))
        }
        Some("cmp") => {
            let a = s.args();
            if a.is_empty() || a.len() % 2 == 0 {
                return Err(format!("bad comparison {}", s.render()));
            }
            let term = s_gt(&a[0])?;
            let mut guards = Vec::new();
            let mut i = 1;
            while i < a.len() {
                guards.push(fol::Guard { relation: s_rel(&a[i])?, term: s_gt(&a[i + 1])? });
                i += 2;
            }
            Ok(F::AtomicFormula(fol::AtomicFormula::Comparison(fol::Comparison { term, guards })))
        }
        Some("not") => Ok(F::UnaryFormula {
            connective: fol::UnaryConnective::Negation,
            formula: Box::new(s_formula(arg(s, 0)?)?),
        }),
        Some(t @ ("and" | "or" | "imp" | "rimp" | "iff")) => Ok(F::BinaryFormula {
            connective: match t {
                "and" => fol::BinaryConnective::Conjunction,
                "or" => fol::BinaryConnective::Disjunction,
                "imp" => fol::BinaryConnective::Implication,
                "rimp" => fol::BinaryConnective::ReverseImplication,
                _ => fol::BinaryConnective::Equivalence,
            },
            lhs: Box::new(s_formula(arg(s, 0)?)?),
            rhs: Box::new(s_formula(arg(s, 1)?)?),
        }),
        Some(t @ ("forall" | "exists")) => Ok(F::QuantifiedFormula {
            quantification: fol::Quantification {
                quantifier: if t == "forall" { fol::Quantifier::Forall } else { fol::Quantifier::Exists },
                variables: arg(s, 0)?.as_list()?.iter().map(s_var).collect::<R<Vec<_>>>()?,
            },
            formula: Box::new(s_formula(arg(s, 1)?)?),
        }),
        _ => Err(format!("bad formula {}", s.render())),
    }
}

pub fn s_theory(s: &S) -> R<fol::Theory> {
    if s.tag() != Some("theory") {
        return Err(format!("bad theory {}", s.render()));
    }
    Ok(fol::Theory { formulas: s.args().iter().map(s_formula).collect::<R<Vec<_>>>()? })
}

// ---------------------------------------------------------------- asp -> S

pub fn aterm_s(t: &asp::Term) -> S {
    match t {
        asp::Term::PrecomputedTerm(p) => match p {
            asp::PrecomputedTerm::Infimum => S::l("pinf", vec![]),
            asp::PrecomputedTerm::Supremum => S::l("psup", vec![]),
            asp::PrecomputedTerm::Numeral(n) => S::l("pnum", vec![S::a(&n.to_string())]),
            asp::PrecomputedTerm::Symbol(s) => S::l("psym", vec![S::s(s.clone())]),
        },
        asp::Term::Variable(v) => S::l("var", vec![S::s(v.0.clone())]),
        asp::Term::UnaryOperation { op, arg } => match op {
            asp::UnaryOperator::Negative => S::l("neg", vec![aterm_s(arg)]),
        },
        asp::Term::BinaryOperation { op, lhs, rhs } => S::l(
            match op {
                asp::BinaryOperator::Add => "add",
                asp::BinaryOperator::Subtract => "sub",
                asp::BinaryOperator::Multiply => "mul",
                asp::BinaryOperator::Divide => "div",
                asp::BinaryOperator::Modulo => "mod",
                asp::BinaryOperator::Interval => "interval",
            },
            vec![aterm_s(lhs), aterm_s(rhs)],
        ),
    }
}

pub fn aatom_s(a: &asp::Atom) -> S {
    let mut v = vec![S::s(a.predicate_symbol.clone())];
    v.extend(a.terms.iter().map(aterm_s));
    S::l("atom", v)
}

pub fn arel_s(r: &asp::Relation) -> S {
    S::s(match r {
        asp::Relation::Equal => "=",
        asp::Relation::NotEqual => "!=",
        asp::Relation::Greater => ">",
        asp::Relation::Less => "<",
        asp::Relation::GreaterEqual => ">=",
        asp::Relation::LessEqual => "<=",
    })
}

pub fn rule_s(r: &asp::Rule) -> S {
    let head = match &r.head {
        asp::Head::Basic(a) => S::l("basic", vec![aatom_s(a)]),
        asp::Head::Choice(a) => S::l("choice", vec![aatom_s(a)]),
        asp::Head::Falsity => S::l("falsity", vec![]),
    };
    let body = r
        .body
        .formulas
        .iter()
        .map(|f| match f {
            asp::AtomicFormula::Literal(l) => S::l(
                "lit",
                vec![
                    S::a(match l.sign {
                        asp::Sign::NoSign => "pos",
                        asp::Sign::Negation => "not",
                        asp::Sign::DoubleNegation => "notnot",
                    }),
                    aatom_s(&l.atom),
                ],
            ),
            asp::AtomicFormula::Comparison(c) => {
                S::l("cmp", vec![arel_s(&c.relation), aterm_s(&c.lhs), aterm_s(&c.rhs)])
            }
        })
        .collect();
    S::l("rule", vec![head, S::L(body)])
}

pub fn program_s(p: &asp::Program) -> S {
    S::l("program", p.rules.iter().map(rule_s).collect())
}
