#!/usr/bin/env python3
"""Regenerates MANIFEST.json from the table below (keeps it valid and in one place)."""
import json

CHECKS = {}


def check(pid, category, text, note, technique, design_ref):
    CHECKS[pid] = {
        'property_id': pid,
        'quick_cmd': './check %s --tier quick' % pid,
        'thorough_cmd': './check %s --tier thorough' % pid,
        'evidence_file': 'evidence/%s.json' % pid,
        'replay_cmd_template': './check %s --replay {path}' % pid,
        'engine': 'av',
        'level_claimed': {'category': category, 'text': text, 'design_ref': design_ref},
        'level_note': note,
        'technique': technique,
    }


TV = 'translation_validation'
BASE_NOTE = ('Trusted base: the reference semantics in av/sem.py (DESIGN.md section 4), z3 5.1.0 (counterexamples '
             're-decided by z3 4.8.12 and cvc5), the bridge (de)serialiser. Syntactic inputs are enumerated within '
             'stated bounds (not symbolic); interpretations, assignments, integers are solver-quantified and '
             'unbounded. `unknown` solver answers are counted and never reported as held.')

check('C05', TV,
      'For every enumerated formula F the real gamma(F) is computed by the rebuilt crate and z3 decides, for ALL pairs '
      'H subset-of T over the standard domain and all assignments, that ht(F) <-> cl(gamma F); predicate copies are '
      'obtained from the real here()/there() and checked to be distinct.',
      BASE_NOTE, 'SMT (z3) equivalence of reference HT semantics vs real gamma output, per enumerated formula',
      'DESIGN.md 5 (C05)')

check('C17', TV,
      'For every enumerated (formula, variable, sort-compatible term) triple the real Formula::substitute is run and z3 '
      'decides, for ALL HT/classical interpretations and assignments, that the result means the original under the '
      'assignment x := value(term); the free-variable equation is checked on the trees.',
      BASE_NOTE, 'SMT (z3) equivalence of substitution result vs semantic substitution, per enumerated triple',
      'DESIGN.md 5 (C17)')

check('C07', TV,
      'Every enumerated formula is pushed through the real portfolios (intuitionistic, ht, classic) under shallow, '
      'recursive and fixpoint application and through each of the 15 single rewrites; for every changed output z3 decides '
      'equivalence with the input over ALL HT interpretations (intuitionistic/ht) or ALL classical interpretations '
      '(classic), and the free-variable inclusion is checked on the trees.',
      BASE_NOTE + ' One open known finding (duplicate equality conjunct) is attributed causally, see known_findings.json.',
      'SMT (z3) equivalence of simplifier input vs real simplifier output, per enumerated formula and configuration',
      'DESIGN.md 5 (C07)')

check('C01', TV,
      'For every enumerated program the real parser + tau* translation is run and z3 decides, rule by rule (and for the '
      'whole theory when a rule-wise query is not unsat), that the printed theory and the program have the same HT models '
      'and the same classical models: all H subset-of T over the standard domain, unbounded integers, and - where the '
      'translation is parametric in them - symbolic numerals.',
      BASE_NOTE + ' Reference mini-gringo semantics: DESIGN.md 4.3 (division/modulo defined for positive divisors, floor quotient).',
      'SMT (z3) equivalence of reference mini-gringo HT semantics vs real tau* output, per enumerated program',
      'DESIGN.md 5 (C01)')

check('C08', TV,
      'For every enumerated rule the real natural_rule / mu / tau* translations are run; whenever natural accepts, and '
      'always for mu, z3 decides that the formula has the same HT models and classical models as the tau* formula of the '
      'same rule (all H subset-of T, unbounded integers, symbolic numerals); results must be closed formulas and mu must '
      'return one formula per rule.',
      BASE_NOTE + ' Oracle = the real tau* output (as the property states); tau* itself is validated by C01.',
      'SMT (z3) HT-equivalence of real natural/mu output vs real tau* output, per enumerated rule',
      'DESIGN.md 5 (C08)')

check('C04', TV,
      'For every enumerated program and input-predicate set the real completion of the real tau* theory is compared by z3, '
      'over ALL classical interpretations, with a reference Clark completion built from the same rule formulas; each '
      'non-input predicate must get exactly one definition; for tight arithmetic-free programs the theorem itself '
      '(completion models = stable models) is re-decided by the solver on a finite structure (constants + 2 symbolic '
      'elements, H quantified); 15 hand-shaped theories check the refusal clause.',
      BASE_NOTE + ' Reference completion: av/c04.py ref_completion. The finite-structure link covers arithmetic-free programs only.',
      'SMT (z3) equivalence of real completion vs reference completion; solver-decided stable-model link on a finite structure',
      'DESIGN.md 5 (C04)')

check('C03', TV,
      'For every enumerated pair of programs and each of the 48 configurations the real StrongEquivalenceTask is decomposed '
      'and z3 decides, over ALL classical interpretations of the h/t copies (H need not be a subset of T), that an '
      'interpretation refutes an emitted forward (backward) problem iff H<=T and <H,T> satisfies the left (right) program '
      'but not the other under the reference mini-gringo semantics.',
      BASE_NOTE, 'SMT (z3) equivalence of the refutation condition of the real problems vs reference HT semantics of the two programs',
      'DESIGN.md 5 (C03)')
check('C02', TV,
      'For every task of the corpus and each of the 24 configurations the real ExternalEquivalenceTask is decomposed and z3 '
      'decides, over ALL interpretations of input, output and private predicates and all placeholder values, that an '
      'interpretation refutes an emitted problem of a direction iff it satisfies the premises and falsifies a conclusion of '
      'an independent reference model of external equivalence (completions built from the rules with the reference term '
      'semantics; private predicates of the two sides kept apart).',
      BASE_NOTE + ' Reference model: av/refext.py. The completion-to-stable-model link is C04; large repo examples may stay unknown.',
      'SMT (z3) equivalence of the refutation condition of the real problems vs a reference model of external equivalence',
      'DESIGN.md 5 (C02)')

check('C19', TV,
      'For every task of the corpus (strong and external, including programs outside the reference fragment) and direction, '
      'the problem families emitted under the 7 non-baseline combinations of decomposition x simplify x eq-break are '
      'compared by z3 with the baseline family: an interpretation refutes some problem of one family iff it refutes some '
      'problem of the other, over ALL classical interpretations.',
      BASE_NOTE, 'SMT (z3) equivalence of refutation conditions across flag combinations of the real task decomposition',
      'DESIGN.md 5 (C19)')
check('C13', TV,
      'For every enumerated outline attached to a small task, the real decomposition is checked problem by problem: z3 '
      'decides that every axiom of a problem is entailed by the direction\'s reference premises, the accepted definitions '
      'and the lemmas whose conjecture problems were all emitted earlier; that lemma conjectures are the closure of the lemma; '
      'that the two obligations of an inductive lemma are exactly base and step (by semantic substitution); definition '
      'acceptance is compared case by case with the reference acceptance predicate.',
      BASE_NOTE + ' Premises per direction come from av/refext.py; soundness of the induction schema itself is stated, not solved.',
      'SMT (z3) entailment/equivalence obligations over the real outline problems',
      'DESIGN.md 5 (C13)')

check('C06', TV,
      'Every enumerated formula is rendered by the real TPTP formatter; the text is read back by a strict TFF reader written '
      'from the TPTP BNF and z3 decides, over ALL interpretations and assignments (unbounded integers), that the text under '
      'the standard interpretation of the preamble symbols has the truth value of the source formula. Syntax complaints of '
      'the reader are reported only when the repo\'s tptp4X rejects the text too. The integer-numeral kernel is additionally '
      'decided for EVERY isize: its MIR (nightly -Zunpretty=mir, regenerated on every run) is translated to 64-bit bit-vector SMT.',
      BASE_NOTE + ' TPTP reader: av/tff.py.', 'SMT (z3) equivalence of source formula vs re-read TPTP text; MIR->bit-vector SMT for the numeral kernel',
      'DESIGN.md 5 (C06)')
check('C09', 'other',
      'Every problem text emitted for a corpus of tasks chosen for their identifier shapes (and samples of the C02/C03 '
      'corpora) is read by a strict TFF reader and type checker: declarations exactly once and at one type, all uses '
      'declared and well-typed against declarations and the $int built-ins, variables bound by typed quantifiers, unique '
      'formula names, one conjecture; tptp4X is the ground truth for syntax.',
      'Trusted base: av/tff.py (lexer, grammar, type checker written from the TPTP BNF) and the repo\'s tptp4X. No solver query '
      'decides this property (it is syntactic/type-theoretic): level `other`. Seven open known findings (non-injective name mangling).',
      'strict TFF reader + type checker per emitted problem, tptp4X cross-check (no satisfiability query: property is syntactic)',
      'DESIGN.md 5 (C09)')
check('C12', TV,
      'z3 decides that each of the 15 preamble axioms is valid under the standard interpretation (unbounded integers, any '
      'total order of symbols); that every symbol_order axiom of every corpus problem is true for the lexicographic order of '
      'the original symbol names and that the axioms chain through all declared symbols; that every transition axiom of the '
      'strong tasks is valid for H subset-of T and that there is one per predicate of either program.',
      BASE_NOTE + ' TPTP reader: av/tff.py.', 'SMT (z3) validity of the re-read auto-generated axioms under the standard interpretation',
      'DESIGN.md 5 (C12)')

check('C11', TV,
      'For every enumerated program, anthem\'s tightness verdict is compared with z3\'s decision whether the positive predicate '
      'dependency graph (re-derived from the documented definition) admits a ranking function; the regularity verdict is '
      'compared with the documented definition of regular rules; for every task of an acceptance corpus (one violated '
      'condition each, with controls, with and without --bypass-tightness) acceptance/refusal is compared with the conjunction '
      'of the listed conditions, the two acyclicity conditions again decided by z3.',
      'Trusted base: av/c11.py (graph construction and the documented definitions of tightness, private recursion and regularity), z3. '
      'Inputs are enumerated; the solver decides acyclicity only (existence of a ranking function). Which error message is reported, and '
      'acceptance conditions the property does not list, are outside the claim. Consequences of a silently unenforced precondition '
      'are also seen by C02\'s behavioural link.',
      'SMT (z3) ranking-function synthesis as the oracle for acyclicity, compared with the real analyses and acceptance decisions',
      'DESIGN.md 12.6 (C11)')

NOT_APPLICABLE = [
    ('C10', 'thread pool + process spawning + regex over prover output: no symbolic reach for Kani/CBMC (no concurrency/process model) and nothing for an SMT encoding to carry; see DESIGN.md 6'),
    ('C14', 'pest PEG parser + fmt printers over Box trees are not executable under CBMC and the property has no semantic layer for SMT (DESIGN.md 6)'),
    ('C15', 'same as C14 for the target-language grammar (DESIGN.md 6)'),
    ('C16', 'quantifies over byte strings through the pest parser and every later stage; out of symbolic reach (DESIGN.md 6)'),
    ('C18', 'termination/idempotence need symbolic execution of the rewrite engine over trees; cross-process determinism is not an encodable input (DESIGN.md 6)'),
    ('C20', 'walkdir over the real file system feeding a match on an extension: syscalls, nothing for a solver to decide (DESIGN.md 6)'),
]


def main():
    import sys
    claimed = sys.argv[1:] or sorted(CHECKS)
    m = {
        'version': 1,
        'setup_cmd': './setup.sh',
        'hooks': {
            'guard': 'verif (cargo feature)',
            'enable': 'bridge/Cargo.toml depends on anthem = { path = "/repo", features = ["verif"] }; built by ./setup.sh and by every check',
            'baseline_off_cmd': 'cd /repo && cargo nextest run --workspace --no-fail-fast --test-threads 8 --offline || cargo test --workspace --no-fail-fast --offline',
            'source_commits': ['4ca13d9'],
            'add_only': True,
        },
        'engines': [
            {'name': 'bridge', 'path': 'bridge/', 'serves_properties': claimed,
             'kind_free_text': 'Rust line server over the real anthem crate (feature verif), rebuilt from /repo on every run'},
            {'name': 'av', 'path': 'av/', 'serves_properties': claimed,
             'kind_free_text': 'Python encoder/driver: reference semantics -> z3 VCs, cvc5 + z3 4.8.12 second opinions, replay, evidence'},
        ],
        'checks': [CHECKS[c] for c in claimed],
        'not_applicable': [{'property_id': p, 'reason': r} for p, r in NOT_APPLICABLE] +
                          [{'property_id': p, 'reason': 'check not built yet in this round (planned, see DESIGN.md 10)'}
                           for p in PLANNED if p not in claimed],
        'notes': 'Exit 0 = held on everything explored (listed known findings print KNOWN-FINDING lines); exit 1 + VIOLATION line = replayed, unlisted counterexample; exit 2 = machinery failure (never a pass).',
    }
    json.dump(m, open('MANIFEST.json', 'w'), indent=1)


PLANNED = ['C01', 'C02', 'C03', 'C04', 'C05', 'C06', 'C07', 'C08', 'C09', 'C11', 'C12', 'C13', 'C17', 'C19']

if __name__ == '__main__':
    main()
