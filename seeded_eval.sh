#!/bin/bash
# usage: seeded_eval.sh <patch.diff> <check ids...> : apply a seeded change to /repo, run the checks, undo it
set -u
patch="$1"; shift
cd /repo || exit 9
git diff --quiet || { echo "/repo has local changes"; exit 9; }
git apply "$patch" || { echo "patch does not apply"; exit 9; }
cd /verif
export VERIF_EVIDENCE_DIR=/verif/out/seeded_evidence   # never overwrite the committed evidence with a seeded run
for c in "$@"; do
  ./check "$c" --tier quick > "/tmp/seedrun_$c.log" 2>&1
  echo "check $c exit=$? :: $(grep -c '^VIOLATION' /tmp/seedrun_$c.log) violation lines :: $(tail -1 /tmp/seedrun_$c.log | cut -c1-200)"
done
git -C /repo checkout -- .
git -C /repo status --short | head -3
