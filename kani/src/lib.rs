//! Kani harness for the one tree-free kernel of C06: the TPTP rendering of an integer numeral.
//! For *every* n: isize the text produced by the real formatter is read back by a small reader of
//! `digits | $uminus(digits)` and must denote n.

#[cfg(kani)]
mod proofs {
    use anthem::{formatting::fol::sigma_0::tptp::Format, syntax_tree::fol::sigma_0::IntegerTerm};

    /// value of `digits` or `$uminus(digits)` as i128, None if the text has another shape
    fn read_back(s: &[u8]) -> Option<i128> {
        let (neg, body) = if s.len() > 9 && &s[..8] == b"$uminus(" && s[s.len() - 1] == b')' {
            (true, &s[8..s.len() - 1])
        } else {
            (false, s)
        };
        if body.is_empty() || body.len() > 20 {
            return None;
        }
        let mut v: i128 = 0;
        let mut i = 0;
        while i < body.len() {
            let c = body[i];
            if !(b'0'..=b'9').contains(&c) {
                return None;
            }
            v = v * 10 + (c - b'0') as i128;
            i += 1;
        }
        Some(if neg { -v } else { v })
    }

    #[kani::proof]
    #[kani::unwind(45)]
    fn numeral_rendering_denotes_the_numeral() {
        let n: isize = kani::any();
        let text = Format(&IntegerTerm::Numeral(n)).to_string();
        let back = read_back(text.as_bytes());
        assert!(back == Some(n as i128));
    }

    /// reachability witness: the assertion above is reached (this one must FAIL)
    #[kani::proof]
    #[kani::unwind(45)]
    fn witness_reachable() {
        let n: isize = kani::any();
        kani::assume(n == -42);
        let text = Format(&IntegerTerm::Numeral(n)).to_string();
        assert!(read_back(text.as_bytes()) != Some(-42));
    }
}
