#!/bin/bash
# Offline setup: build the bridge (real anthem code with feature `verif`) and the anthem CLI from /repo,
# byte-compile the encoder, run the encoder self-test.
set -e
cd "$(dirname "$0")"
export CARGO_NET_OFFLINE=true
export RUST_BACKTRACE=0
mkdir -p .build out evidence
python3-vt - <<'PY'
from av import bridge
bridge.build()
bridge.build_cli()
PY
python3-vt -m compileall -q av
python3-vt -m av.selftest
# pre-build the nightly artefacts used by the MIR kernel check of C06
python3-vt -c "from av import mirkernel; print('mir kernel:', mirkernel.check_kernel().get('verdict'))"
