"""Encoder self-test: S-expression round trip, bridge liveness, a valid and an invalid VC."""
import sys

import z3

from . import bridge as bridge_mod
from .fol import *
from .sem import Ctx
from .sexp import parse, render


def main():
    b = bridge_mod.get()
    assert b.call('ping') == ('pong',)
    f = imp(atom('p'), neg(atom('q', gvar('X'))))
    assert parse(render(f)) == f
    g = b.call('gamma', f)[0]
    ctx = Ctx()
    s = z3.Solver()
    s.add(ctx.subset_conditions([('p', 0), ('q', 1)]))
    # excluded middle is not HT-valid, but is classically valid
    em = disj(atom('p'), neg(atom('p')))
    s.push()
    s.add(z3.Not(ctx.ht(em, 'h')))
    assert s.check() == z3.sat
    s.pop()
    s.add(z3.Not(ctx.cl(em)))
    assert s.check() == z3.unsat
    print('selftest ok')


if __name__ == '__main__':
    main()
