"""C09 - every emitted problem is well-formed, well-typed, self-contained TFF."""
import os
import random
import re
import subprocess

from . import bridge as bridge_mod
from . import driver
from . import genprog
from . import tff
from .c02 import TASKS as EXT_TASKS, run_task
from .c03 import PROGRAMS
from .checks_common import generic_replay
from .sexp import Q, render
from .tasks import *

PROPERTY = 'C09'
LEVEL = 'other'
HARD_TIMEOUT = 300

TPTP4X = os.path.join(bridge_mod.REPO, 'tests', 'examples', 'tptp4X_linux')

# identifier-shape corpus: (name, kind, left, right, user guide or None for strong equivalence)
SHAPES = [
    ('leading-underscore-symbol', 'strong', 'p(_a) :- q(_a).', 'p(_a) :- q(_a), not r(_a).', None),
    ('leading-underscore-predicate', 'strong', '_p(X) :- q(X).', '_p(X) :- q(X), X = X.', None),
    ('arity-overload', 'strong', 'r. r(1). r(1, 2).', 'r. r(1). r(1, 2) :- r(1), r.', None),
    ('symbol-vs-0-ary-predicate', 'strong', 'p(q) :- q.', 'p(q) :- q, not not q.', None),
    ('symbol-vs-unary-predicate', 'strong', 'p(p).', 'p(p) :- not q(p).', None),
    ('symbol-named-like-renamed', 'strong', 'q :- p(q__s, q).', 'q :- p(q__s, q), q.', None),
    ('symbol-equals-copy-of-predicate', 'strong', 'p(hp) :- p(tp).', 'p(hp) :- p(tp), not q.', None),
    ('symbol-equals-preamble-type', 'strong', 'p(general). p(symbol).', 'p(general). p(symbol) :- p(general).', None),
    ('symbol-equals-preamble-constant', 'strong', 'p(c__infimum__) :- q(f__integer__).', 'p(c__infimum__) :- q(f__integer__), p(#inf).', None),
    ('predicate-equals-preamble-predicate', 'external', 'p__less__(X, Y) :- q(X), q(Y).', 'p__less__(X, Y) :- q(Y), q(X).',
     'input: q/1. output: p__less__/2.'),
    ('symbol-ending-in-sort-suffix', 'strong', 'p(x_i, x_g, x_s).', 'p(x_i, x_g, x_s) :- not q(x_i).', None),
    ('symbol-vs-mangled-integer-placeholder', 'external', 'p(c_i) :- q(c).', 'p(c_i) :- q(c), not r(c_i). r(X) :- q(X), X != c.',
     'input: c -> integer. input: q/1. output: p/1.'),
    ('symbol-vs-mangled-general-placeholder', 'external', 'p(c_g, c).', 'p(c_g, c) :- not q(c).',
     'input: c -> general. input: q/1. output: p/2.'),
    ('placeholder-named-like-variable-mangling', 'external', 'p(x) :- q(X), X = x.', 'p(x) :- q(x).',
     'input: x -> symbol. input: q/1. output: p/1.'),
    ('underscore-variable-in-spec', 'external-spec', 'spec: forall _X (p(_X) -> q(_X)).', 'p(X) :- q(X).', 'input: q/1. output: p/1.'),
    ('variable-named-like-suffix', 'external-spec', 'spec: forall X_i X$i (p(X_i) and X$i = X_i -> q(X$i)).', 'p(X) :- q(X).',
     'input: q/1. output: p/1.'),
    ('same-name-different-sorts-in-one-block', 'external-spec', 'spec: forall X (p(X) -> exists X$i X (q(X$i) and q(X))). '
     'spec: forall X X$i X$s (q(X) and X$i > 0 and X$s != a -> exists X$s X$i (X$i < 1 or X$s = a) or p(X)). assumption: exists X$i X$s X (X = X$i or X = X$s).',
     'p(X) :- q(X).', 'input: q/1. output: p/1.'),
    ('formula-names', 'external-spec', 'spec[_n]: forall X (p(X) -> q(X)). spec[_n]: forall X (q(X) -> p(X)). spec: #true. '
     'assumption[formula_0_n]: forall X (q(X) -> X = X). spec[n]: forall X (p(X) <-> q(X)).', 'p(X) :- q(X).', 'input: q/1. output: p/1.'),
    ('formula-names-with-break-suffixes', 'external-spec', 'spec[n]: forall X (p(X) <-> q(X)). spec[n_0]: forall X (p(X) -> q(X)). '
     'spec[n_1]: forall X (q(X) -> p(X)). spec[n_0_0]: forall X (p(X) <-> q(X) and X = X).', 'p(X) :- q(X).', 'input: q/1. output: p/1.'),
    ('formula-name-equals-declaration-name', 'external-spec', 'spec[predicate_0]: forall X (p(X) -> q(X)). '
     'spec[type_symbol_0]: p(a) -> q(a). spec[symbol_order_0]: p(b) -> q(b).', 'p(X) :- q(X).', 'input: q/1. output: p/1.'),
    ('formula-name-equals-declaration-stem', 'external-spec', 'spec[predicate]: forall X (p(X) -> q(X)). spec[type_symbol]: p(a) -> q(a). '
     'spec[symbol_order]: p(b) -> q(b). spec[type_function_constant]: forall X (p(X) -> X != n). spec[formula]: forall X (q(X) and X != n -> p(X)). '
     'spec[formula_0]: #true. spec[predicate_1]: #true. assumption[symbol_order_1]: n != a.', 'p(X) :- q(X), X != n.', 'input: n. input: q/1. output: p/1.'),
    ('outline-with-renamed-symbol', 'external-outline', 'q :- p(X), X != q. r(X) :- p(X), not q.', 'q :- p(X), q != X. r(X) :- p(X), not q.',
     'input: p/1. output: r/1. output: q/0.',
     'lemma(forward)[l1]: forall X (p(X) and X != q -> q). inductive-lemma[il]: forall N$i (N$i >= 0 -> (p(N$i) -> N$i != q)). '
     'definition[d1]: forall X (dd(X) <-> p(X) and X = q). lemma(backward): forall X (dd(X) -> X = q).'),
    ('outline-plain', 'external-outline', 'q(X) :- p(X), X != a.', 'q(X) :- p(X), a != X.', 'input: p/1. output: q/1.',
     'lemma: forall X (q(X) -> p(X)). inductive-lemma: forall N$i (N$i >= 0 -> (q(N$i) -> N$i != a)). lemma(backward): exists X (p(X)) or not exists Y q(Y).'),
    ('chain-under-quantifier-in-spec', 'external-spec', 'spec: forall X (p(X) -> exists N$i (1 <= N$i <= 3 and X = N$i)). '
     'assumption: exists N$i (0 <= N$i < 5). spec: forall X (q(X) <-> exists Y$i (X = Y$i and 1 <= Y$i <= 3) or p(X)).',
     'q(X) :- p(X). q(1..3). :- p(X), X < 1. :- p(X), X > 3. :- p(X), X != 1, X != 2, X != 3.', 'input: p/1. output: q/1.'),
    # symbolic constants that occur ONLY in the second / third guard of a chained comparison (seed C09-16: symbols() looked at the
    # first guard only, so such a constant was used but never declared)
    ('symbols-only-in-later-guards', 'external-spec', 'spec: forall X (q(X) <-> p(X) and a < X). assumption: forall X (p(X) -> a < X < zz). '
     'spec: forall X (q(X) -> aa <= X <= X < zy).', 'q(X) :- p(X), a < X.', 'input: p/1. output: q/1.'),
    ('constants-in-rare-positions', 'external-spec',
     'spec: forall X (p(X) -> exists N$i (X = N$i and 1 <= N$i <= n$i)). spec: forall X$i (p(X$i) <- q(X$i) and X$i = 3 - (-m$i)). '
     'assumption: forall X (q(X) -> X != c$g and X != d$s and X > 0 > k$i * 2). spec: forall X (p(X) -> not X = e).',
     'p(X) :- q(X), X = 1..n, X = 3 + m.', 'input: n -> integer. input: m -> integer. input: k -> integer. input: c -> general. input: d -> symbol. '
     'input: q/1. output: p/1.'),
    # a direction with nothing to prove must yield no problem at all (never a problem without a conjecture)
    ('backward-direction-empty', 'external-spec', 'spec(forward): forall X (q(X) <-> p(X)).', 'q(X) :- p(X).', 'input: p/1. output: q/1.'),
    ('forward-direction-empty', 'external-spec', 'spec(backward): forall X (q(X) <-> p(X)). assumption: forall X (p(X) -> X > 0).',
     'q(X) :- p(X).', 'input: p/1. output: q/1.'),
    ('spec-of-assumptions-only', 'external-spec', 'assumption: forall X (p(X) -> X > 0).', 'q(X) :- p(X).', 'input: p/1. output: q/1.'),
    ('no-public-definition', 'external', 'aux(X) :- p(X).', 'aux(X) :- p(X), X = X.', 'input: p/1.'),
    ('no-public-definition-with-outline', 'external-outline', 'aux(X) :- p(X).', 'aux(X) :- p(X), X = X.', 'input: p/1.',
     'lemma(forward): forall X (p(X) -> p(X)). lemma(backward): forall X (p(X) or not p(X)).'),
    ('symbols-in-rare-positions', 'strong', 'p(X) :- q(X), X != a, b < X, not r(c, X). r(d, e) :- not q(f).',
     'p(X) :- q(X), a != X, not r(c, X), X > b. r(d, e) :- not not r(d, e), not q(f).', None),
    ('many-conjectures', 'strong', 'p. q. r. s.', 'p :- q. q :- r. r :- s. s.', None),
    ('keyword-like-names', 'strong', 'tff(axiom) :- type(conjecture).', 'tff(axiom) :- type(conjecture), not fof.', None),
    ('uppercase-in-symbols', 'strong', 'p(aB_c9) :- q(zZ).', 'p(aB_c9) :- q(zZ), q(zZ).', None),
    ('many-symbols-order', 'strong', 'p(b, a, c, ab, aa, a0, a_, aB).', 'p(b, a, c, ab, aa, a0, a_, aB) :- not q.', None),
]


def generate(tier, seed):
    rnd = random.Random(seed)
    items = []
    for s in SHAPES:
        items.append({'family': 'identifier-shapes', 'shape': s, 'label': s[0]})
    pairs = [(a, b) for a in PROGRAMS for b in PROGRAMS if a != b]
    rnd.shuffle(pairs)
    for (l, r) in pairs[:25 if tier == 'quick' else 300]:
        items.append({'family': 'strong-corpus', 'shape': ('corpus', 'strong', l, r, None), 'label': '%s || %s' % (l, r)})
    for (l, r) in genprog.pairs(seed + 1, 30 if tier == 'quick' else 1500):
        items.append({'family': 'strong-generated', 'shape': ('generated', 'strong', l, r, None), 'label': '%s || %s' % (l, r)})
    for t in EXT_TASKS:
        kind = 'external' if t[1] == 'program' else 'external-spec'
        items.append({'family': 'external-corpus', 'shape': (t[0], kind, t[2], t[3], t[4]), 'label': t[0]})
    return items


def tptp4x(text_):
    if not os.path.exists(TPTP4X):
        return None
    os.makedirs(driver.OUT, exist_ok=True)
    path = os.path.join(driver.OUT, 'c09_%d.p' % os.getpid())
    with open(path, 'w') as fh:
        fh.write(text_)
    try:
        r = subprocess.run([TPTP4X, path], stdout=subprocess.PIPE, stderr=subprocess.STDOUT, text=True, timeout=60)
        ok = r.returncode == 0 and 'ERROR' not in r.stdout
        msg = ''
        m = re.search(r'ERROR:[^\n]*', r.stdout)
        if m:
            msg = m.group(0)
        return ok, msg
    except Exception:
        return None
    finally:
        try:
            os.remove(path)
        except OSError:
            pass


def kind_of_type(ty):
    if ty == '$o' or (isinstance(ty, tuple) and ty[2] == '$o'):
        return 'predicate/%d' % (0 if ty == '$o' else len(ty[1]))
    if isinstance(ty, tuple):
        return 'function'
    return {'symbol': 'symbol-constant', '$int': 'integer-constant', 'general': 'general-constant', '$tType': 'type'}.get(ty, ty)


def classify(err, items):
    """role key of an error message"""
    m = re.match(r'(\S+) declared at two different types: (.*) and (.*)$', err)
    if m:
        decls = {}
        for it in items:
            if it['role'] == 'type' and it['body'][1] == m.group(1):
                decls.setdefault(m.group(1), []).append(kind_of_type(it['body'][2]))
        kinds = sorted(set(re.sub(r'/\d+', '/n', k) if False else k for k in decls.get(m.group(1), [])))
        gen = sorted(set('predicate0' if k == 'predicate/0' else re.sub(r'predicate/\d+', 'predicate', k) for k in kinds))
        if all(g.startswith('predicate') for g in gen):
            return 'two-types:predicate-arities'
        if gen == ['predicate']:
            return 'two-types:predicate-arities'
        return 'two-types:' + '+'.join(gen)
    if re.search(r'declared twice', err):
        return 'declared-twice'
    if re.search(r'declared both as a type', err):
        return 'type-vs-symbol'
    if "illegal character '_'" in err:
        return 'lexical:leading-underscore'
    if 'illegal character' in err:
        return 'lexical:illegal-character'
    if 'formula name' in err:
        return 'duplicate-formula-name'
    if 'conjectures' in err:
        return 'conjecture-count'
    if 'not bound' in err or 'untyped variable' in err:
        return 'unbound-variable'
    if 'not declared' in err:
        return 'undeclared-identifier'
    if 'bad variable' in err or 'bad identifier' in err or 'bad formula name' in err:
        return 'lexical:bad-identifier'
    if 'ambiguous associativity' in err:
        return 'syntax:associativity'
    if 'argument of' in err or 'applied to' in err or 'equation between' in err or 'not a formula' in err:
        return 'ill-typed'
    return 'other:' + err[:40]


def check_problem_text(name, text_):
    """returns list of (signature, message)"""
    try:
        items = tff.parse_problem(text_)
    except tff.TffError as e:
        ok = tptp4x(text_)
        if ok is not None and ok[0]:
            return [('reader-disagrees-with-tptp4x', 'reader: %s ; tptp4X accepts (not reported)' % e)], True
        return [(classify(str(e), []), 'not valid TFF: %s%s' % (e, '' if ok is None else ' ; tptp4X: ' + ok[1]))], False
    sig, errors, used = tff.check_problem(items)
    out = []
    multi = {ident for ident, n in sig.decl_count.items() if n > 1}
    for e in errors:
        m = re.search(r'\[identifiers: ([^\]]*)\]', e)
        if m and multi & set(m.group(1).split()):
            continue        # a consequence of an identifier declared more than once, reported under that signature
        out.append((classify(e, items), e))
    # preamble identifiers must not be redeclared by the problem-specific part (covered by two-types/declared-twice)
    return out, False


_PREFIXES = []


def copy_prefixes(b):
    """the prefixes anthem puts in front of a predicate name for its here/there copies (read off the implementation)"""
    if not _PREFIXES:
        probe = 'zzprobe'
        for op in ('here', 'there'):
            n = str(b.call(op, ('atom', Q(probe)))[0][1])
            _PREFIXES.append(n[:-len(probe)] if n.endswith(probe) else '')
    return _PREFIXES


def from_input(ident, written, prefixes=()):
    """can the TFF identifier be traced to a name written in the task (itself, a here/there copy of it, a sort-mangled
    or renamed form of it)?"""
    cands = {ident, re.sub(r'_[gis]$', '', ident), re.sub(r'__s\d*$', '', ident), re.sub(r'_p\d*$', '', ident)}
    cands |= {ident[len(p):] for p in prefixes if p and ident.startswith(p)}
    return any(c in written for c in cands if c)


def check_item(item):
    b = bridge_mod.get()
    shape = item['shape']
    name, kind, left, right, ug = shape[:5]
    outline = shape[5] if len(shape) > 5 else ''
    written = input_names(left, right, ug or '', outline or '')
    out = []
    configs = [('universal', 'sequential', True, True), ('universal', 'independent', False, False)]
    seen = set()
    for direction, dec, simp, eqb in configs:
        try:
            if kind == 'strong':
                req = ('strong_task', Q(left), Q(right), Q('tau-star'), Q(direction), Q(dec), Q(str(simp).lower()), Q(str(eqb).lower()))
                resp = b.call(*req, timeout=120)
                payload = resp[0]
            else:
                req, resp = run_task(b, (name, 'spec' if kind == 'external-spec' else 'program', left, right, ug), direction, dec, simp, eqb,
                                     outline=outline)
                if resp[0][:1] == ('refused',):
                    out.append({'family': item['family'], 'key': item['label'] + '#refused', 'input': item['label'], 'verdict': 'skipped',
                                'detail': 'task refused: %s' % str(resp[0][1])[:200]})
                    break
                payload = resp[0]
        except bridge_mod.BridgeError as e:
            out.append({'family': item['family'], 'key': item['label'] + '#parse', 'input': item['label'], 'verdict': 'skipped',
                        'detail': 'input not accepted: %s' % str(e)[:200]})
            break
        except bridge_mod.BridgePanic as e:
            out.append({'family': item['family'], 'key': item['label'] + '#panic', 'input': item['label'], 'verdict': 'observation',
                        'detail': 'panic (C16 territory): %s' % e})
            break
        probs_all = parse_problems(payload)
        dup = well_formed(probs_all)
        dup = [d for d in dup if 'duplicate problem names' in d]
        if dup:
            out.append({'family': item['family'], 'key': '%s#%s#problem-names' % (item['label'], dec), 'input_key': item['label'], 'input': item['label'],
                        'verdict': 'violation-concrete', 'signature': 'tff:duplicate-problem-name', 'detail': '; '.join(dup), 'nontrivial': True,
                        'replay': {'request': render(req), 'expected': render(resp)}})
        for p in probs_all:
            if p['text'] in seen:
                continue
            seen.add(p['text'])
            base = {'family': item['family'], 'key': '%s#%s#%s' % (item['label'], dec, p['name']), 'input_key': item['label'],
                    'input': '%s :: %s || %s%s [%s]' % (item['label'], left[:100], right[:100], (' || ' + ug[:80]) if ug else '', p['name']),
                    'obligation': 'the problem text is syntactically valid TFF, every used identifier is declared exactly once at '
                                  'the type it is used at, no identifier has two types, every variable is bound by a typed quantifier, '
                                  'all terms/atoms type-check, formula names are unique, exactly one conjecture',
                    'nontrivial': True, 'twin': item.get('twin', False)}
            text_ = p['text']
            if item.get('twin_mode') == 'drop-declaration':
                # remove the last declaration of a predicate type (whatever the declaration is called)
                decls = list(re.finditer(r'tff\([A-Za-z0-9_]+, type, [^\n]*\$o\)\.\n', text_))
                if decls:
                    text_ = text_[:decls[-1].start()] + text_[decls[-1].end():]
            errs, _ = check_problem_text(p['name'], text_)
            real = [e for e in errs if e[0] != 'reader-disagrees-with-tptp4x']
            if not real:
                r = dict(base)
                r.update(verdict='held-concrete', output='%d lines' % text_.count('\n'))
                out.append(r)
                continue
            by_sig = {}
            for sgn, msg in real:
                # the recorded name-mangling findings are all about identifiers the *user* wrote; the same error class
                # on an identifier that cannot be traced to the task's text is something else and gets its own signature
                if sgn.startswith('two-types') or sgn in ('declared-twice', 'type-vs-symbol'):
                    m = re.match(r'(\S+) declared', msg)
                    if m and not from_input(m.group(1), written, copy_prefixes(b)):
                        sgn += ':identifier-not-from-input'
                by_sig.setdefault(sgn, []).append(msg)
            for sgn, msgs in sorted(by_sig.items()):
                r = dict(base)
                r['key'] += '#' + sgn
                r.update(verdict='violation-concrete', signature='tff:' + sgn, detail='; '.join(msgs)[:700],
                         replay={'request': render(req), 'expected': render(resp)})
                out.append(r)
    if item.get('twin'):
        bad = [r for r in out if r.get('verdict') == 'violation-concrete']
        return bad[:1] or out[:1]
    return out


TWINS_EXPECTED = 1


def twins(tier, seed):
    # a problem with one declaration removed must be flagged (undeclared identifier)
    return [{'family': 'twin', 'shape': ('twin', 'strong', 'p :- q.', 'p :- not not q.', None), 'label': 'twin',
             'twin_mode': 'drop-declaration'}]


def replay(r):
    return generic_replay(r)


def describe(tier):
    return {
        'rule': 'every problem emitted (two flag combinations) for grammar-generated program pairs over a confusable name pool (av/genprog.py), for tasks with a direction that has nothing to prove, and for 21 tasks that exercise identifier shapes the input grammars '
                'accept (leading underscores, predicates of equal name and different arity, a symbol named like a predicate, like '
                'a renamed symbol, like a mangled placeholder, like a preamble type/constant/predicate, sort-suffix endings, '
                'colliding/unnamed/underscore formula names) plus a seeded sample of the strong corpus and the external corpus; '
                'one obligation per distinct problem text and error class',
        'functions': ['verifying::problem::{Display for Problem, rename_conflicting_symbols, create_unique_formula_names, '
                      'add_annotated_formulas, decompose_*}', 'formatting::fol::sigma_0::tptp::*',
                      'syntax_tree::fol::sigma_0::*::rename_conflicting_symbols', 'verifying/problem/standard_interpretation.p'],
        'bounds': 'the listed tasks and flag combinations',
        'outside': 'tasks beyond the corpus',
        'assumptions': ['av/tff.py: TPTP lexical rules, grammar and type checker written from the TPTP BNF; lexical/syntactic '
                        'complaints are only reported when the repo\'s tptp4X rejects the text too'],
        'explanation': 'This property is syntactic and type-theoretic: it is decided per emitted problem by a strict TFF reader and '
                       'type checker (declarations, uses, types, binders, names, conjecture count), with tptp4X as independent '
                       'ground truth for syntax. No satisfiability query is involved, which is why the level is `other`; the '
                       'check exists because the TPTP-level solver checks (C06, C12) need the same reader and because realistic '
                       'breakages of this property (a dropped declaration or renaming, two conjectures, duplicate names) are '
                       'exactly what it sees.',
        'trusted_base': ['av/tff.py', 'tptp4X'],
    }
