"""CLI agreement: the solver verdicts of the checks are about what anthem's library functions return through the bridge; a
user runs the command line. These obligations tie the two together on a sample of every check's inputs: the real CLI
(built from /repo's current tree), given the same input through files and flags, must print / save byte for byte the text
the bridge produced - so the plumbing between the command line and the library (which translation, portfolio, strategy,
direction, decomposition is selected; which file plays which role) is covered by the same verdicts.

Nothing here interprets anthem's output; it only compares two paths through the real code."""
from . import bridge as bridge_mod
from .checks_common import run_cli
from .sexp import Q, render


def _result(base, ok, detail, req, expected_text, cli=None):
    """cli: {'args', 'files', 'library_stdout' | 'library_files' | 'library_refuses'} - re-run on replay: the difference
    must still be there"""
    r = dict(base)
    if ok:
        r.update(verdict='held-concrete')
    else:
        r.update(verdict='violation-concrete', signature='cli-differs-from-library', detail=detail[:900],
                 replay={'cli_mismatch': cli or {}})
    return r


def replay_mismatch(c):
    """True if the CLI still differs from what the library produced"""
    code, out, err, produced = run_cli(c['args'], files=c.get('files'), timeout=120)
    if c.get('library_refuses'):
        return code == 0 and (bool(out.strip()) or any(k.endswith('.p') for k in produced))
    if 'library_stdout' in c:
        return not (code == 0 and out.strip() == c['library_stdout'].strip())
    want = c.get('library_files') or {}
    got = {k: v for k, v in produced.items() if k.endswith('.p')}
    return not (code == 0 and got == want)


def roundtrips(b, formula, src):
    """the CLI reads the formula from text: only formulas whose printed text parses back to the same tree are used
    (printing/parsing round trips are property C15, not claimed here)"""
    try:
        return b.call('parse_formula', Q(src))[0] == formula
    except (bridge_mod.BridgeError, bridge_mod.BridgePanic):
        return False


def translate(b, family, key, text_in, how):
    """anthem translate --with tau-star|natural|mu <program file> vs the text of the theory the library call returns."""
    base = {'family': family, 'key': 'cli#%s#%s' % (how, key), 'input': '%s  [anthem translate --with %s]' % (text_in[:200], how),
            'obligation': 'the CLI prints exactly the theory the library call returns (and refuses exactly when it does)', 'nontrivial': True}
    req = ({'tau-star': 'tau_star', 'natural': 'natural', 'mu': 'mu'}[how], Q(text_in))
    try:
        resp = b.call(*req)
    except (bridge_mod.BridgeError, bridge_mod.BridgePanic):
        return None
    if how == 'tau-star':
        tree, expected = resp[1], str(resp[4])
    elif how == 'mu':
        tree, expected = resp[1], str(resp[2])
    else:
        tree, expected = (resp[2][1], str(resp[2][2])) if resp[2][0] == 'some' else (None, None)
    # the solver verdicts are about the tree; what the user gets is its printed text: reading the text back must give the tree
    if expected is not None:
        try:
            back = b.call('parse_theory', Q(expected))[0]
        except (bridge_mod.BridgeError, bridge_mod.BridgePanic) as e:
            back = ('unreadable', str(e)[:200])
        if back != tree:
            r = dict(base)
            r.update(verdict='violation-concrete', signature='printed-theory-differs-from-tree',
                     detail='the printed theory does not read back as the translated tree: %s' % expected[:500],
                     replay={'request': render(req), 'expected': render(resp)})
            return r
    args, files = ['translate', '--with', how, 'in.lp'], {'in.lp': text_in}
    rc, out, err, _ = run_cli(args, files=files)
    if expected is None:
        return _result(base, rc != 0, 'library refuses (not regular), CLI rc=%s prints: %s' % (rc, out[:300]), req, '',
                       {'args': args, 'files': files, 'library_refuses': True})
    ok = rc == 0 and out.strip() == expected.strip()
    return _result(base, ok, 'CLI (rc=%s): %s || library: %s' % (rc, (out or err)[:400], expected[:400]), req, expected,
                   {'args': args, 'files': files, 'library_stdout': expected})


def gamma(b, family, key, formula):
    base = {'family': family, 'key': 'cli#gamma#%s' % key, 'nontrivial': True,
            'obligation': 'the CLI prints exactly the formula the library call returns'}
    req = ('gamma', formula)
    try:
        g = b.call(*req)[0]
        src = str(b.call('fmt_formula', formula)[0])
        dst = str(b.call('fmt_formula', g)[0])
    except (bridge_mod.BridgeError, bridge_mod.BridgePanic):
        return None
    if not roundtrips(b, formula, src):
        return None
    base['input'] = '%s  [anthem translate --with gamma]' % src[:200]
    args, files = ['translate', '--with', 'gamma', 'in.spec'], {'in.spec': src + '.\n'}
    rc, out, err, _ = run_cli(args, files=files)
    ok = rc == 0 and out.strip() == (dst + '.').strip()
    return _result(base, ok, 'CLI (rc=%s): %s || library: %s.' % (rc, (out or err)[:400], dst[:400]), req, dst,
                   {'args': args, 'files': files, 'library_stdout': dst + '.'})


def simplify(b, family, key, formula, portfolio, strategy):
    base = {'family': family, 'key': 'cli#%s/%s#%s' % (portfolio, strategy, key), 'nontrivial': True,
            'obligation': 'the CLI prints exactly the formula the library portfolio returns'}
    req = ('simplify', Q(portfolio), Q(strategy), formula)
    try:
        g = b.call(*req, timeout=20)[0]
        src = str(b.call('fmt_formula', formula)[0])
        dst = str(b.call('fmt_formula', g)[0])
    except (bridge_mod.BridgeError, bridge_mod.BridgePanic, bridge_mod.BridgeTimeout):
        return None
    if not roundtrips(b, formula, src):
        return None
    base['input'] = '%s  [anthem simplify --portfolio %s --strategy %s]' % (src[:200], portfolio, strategy)
    args, files = ['simplify', '--portfolio', portfolio, '--strategy', strategy, 'in.spec'], {'in.spec': src + '.\n'}
    rc, out, err, _ = run_cli(args, files=files)
    ok = rc == 0 and out.strip() == (dst + '.').strip()
    return _result(base, ok, 'CLI (rc=%s): %s || library: %s.' % (rc, (out or err)[:400], dst[:400]), req, dst,
                   {'args': args, 'files': files, 'library_stdout': dst + '.'})


def verify(b, family, key, equivalence, files, order, bridge_req, flags):
    """anthem verify --equivalence <e> <files in `order`> <flags> --no-proof-search --save-problems DIR vs the problems the
    bridge returns for `bridge_req`. `files`: {file name: content}; the file names are chosen by the caller so that their
    alphabetical order differs from the argument order."""
    base = {'family': family, 'key': 'cli#verify#%s' % key, 'nontrivial': True,
            'input': 'anthem verify --equivalence %s %s %s' % (equivalence, ' '.join(order), ' '.join(flags)),
            'obligation': 'the CLI saves exactly the problems (names and text) the library task yields'}
    resp = b.call(*bridge_req, timeout=120)
    args = ['verify', '--equivalence', equivalence] + list(order) + list(flags) + ['--no-proof-search', '--save-problems', '@DIR']
    rc, out, err, produced = run_cli(args, files=files, timeout=120)
    produced = {k: v for k, v in produced.items() if k.endswith('.p')}
    if resp[0][:1] == ('refused',):
        ok = rc != 0 or not produced
        return _result(base, ok, 'library refuses the task, CLI rc=%s saved %s' % (rc, sorted(produced)), bridge_req, '',
                       {'args': args, 'files': files, 'library_refuses': True})
    want = {str(p[1]) + '.p': str(p[3]) for p in resp[0]}
    ok = rc == 0 and set(want) == set(produced) and all(produced[k] == want[k] for k in want)
    detail = 'CLI rc=%s saved %s; library yields %s' % (rc, sorted(produced), sorted(want))
    if rc == 0 and set(want) == set(produced):
        bad = [k for k in want if produced[k] != want[k]]
        detail += '; differing: %s' % bad[:3]
        if bad:
            a, c = produced[bad[0]].splitlines(), want[bad[0]].splitlines()
            diff = [(x, y) for x, y in zip(a, c) if x != y][:2]
            detail += ' e.g. %s' % (diff,)
    elif rc != 0:
        detail += ' stderr: %s' % err[:300]
    return _result(base, ok, detail, bridge_req, '\n'.join(sorted(want)), {'args': args, 'files': files, 'library_files': want})
