"""A strict reader for the TFF subset anthem emits, written against the TPTP BNF (not against anthem's printer).

 * `&` and `|` are associative only with themselves; `=>`, `<=`, `<=>` are non-associative: mixing or chaining them
   without parentheses is a syntax error ("binary with ambiguous associativity");
 * `~` applies to the following *unit* formula; `a = b` / `a != b` are unit formulas;
 * a quantifier's scope is the following unit formula;
 * lower-case words are functors, upper-case words variables, `$`-words defined symbols, integers are numbers;
 * identifiers must be TPTP lower_words ([a-z][a-zA-Z0-9_]*) or upper_words.

Produces an AST, a symbol table (declarations and uses), a type checker, and a translation into z3 under the
standard interpretation of the preamble symbols.
"""
import re

import z3

TOKEN = re.compile(r"""
    (?P<ws>\s+|%[^\n]*) |
    (?P<num>[0-9]+) |
    (?P<lower>[a-z][a-zA-Z0-9_]*) |
    (?P<upper>[A-Z][a-zA-Z0-9_]*) |
    (?P<dollar>\$[a-zA-Z][a-zA-Z0-9_]*) |
    (?P<op><=>|=>|<=|!=|[()\[\],.:&|~!?=*>-])
""", re.X)


class TffError(Exception):
    pass


def tokenize(text):
    pos = 0
    out = []
    while pos < len(text):
        m = TOKEN.match(text, pos)
        if not m:
            raise TffError('illegal character %r at %d: %r' % (text[pos], pos, text[max(0, pos - 20):pos + 20]))
        pos = m.end()
        kind = m.lastgroup
        if kind == 'ws':
            continue
        out.append((kind, m.group()))
    return out


class Parser:
    def __init__(self, text):
        self.toks = tokenize(text)
        self.i = 0

    def peek(self):
        return self.toks[self.i] if self.i < len(self.toks) else ('eof', '')

    def next(self):
        t = self.peek()
        self.i += 1
        return t

    def expect(self, val):
        t = self.next()
        if t[1] != val:
            raise TffError('expected %r, got %r (token %d)' % (val, t[1], self.i))
        return t

    def at_end(self):
        return self.i >= len(self.toks)

    # ---- annotated formulas
    def annotated(self):
        self.expect('tff')
        self.expect('(')
        name = self.next()
        if name[0] not in ('lower', 'num'):
            raise TffError('bad formula name %r' % (name[1],))
        self.expect(',')
        role = self.next()
        if role[0] != 'lower':
            raise TffError('bad role %r' % (role[1],))
        self.expect(',')
        if role[1] == 'type':
            body = self.type_decl()
        else:
            body = self.logic_formula()
        self.expect(')')
        self.expect('.')
        return {'name': name[1], 'role': role[1], 'body': body}

    def type_decl(self):
        paren = 0
        while self.peek()[1] == '(':
            self.next()
            paren += 1
        ident = self.next()
        if ident[0] != 'lower':
            raise TffError('bad identifier in type declaration: %r' % (ident[1],))
        self.expect(':')
        ty = self.top_type()
        for _ in range(paren):
            self.expect(')')
        return ('decl', ident[1], ty)

    def atomic_type(self):
        t = self.next()
        if t[0] in ('lower', 'dollar'):
            return t[1]
        raise TffError('bad type %r' % (t[1],))

    def top_type(self):
        if self.peek()[1] == '(':
            self.next()
            args = [self.atomic_type()]
            while self.peek()[1] == '*':
                self.next()
                args.append(self.atomic_type())
            self.expect(')')
            self.expect('>')
            res = self.atomic_type()
            return ('fun', tuple(args), res)
        t = self.atomic_type()
        if self.peek()[1] == '>':
            self.next()
            return ('fun', (t,), self.atomic_type())
        return t

    # ---- formulas
    def logic_formula(self):
        left = self.unit_formula()
        t = self.peek()[1]
        if t in ('&', '|'):
            parts = [left]
            while self.peek()[1] == t:
                self.next()
                parts.append(self.unit_formula())
            if self.peek()[1] in ('&', '|', '=>', '<=', '<=>'):
                raise TffError('binary with ambiguous associativity near %r' % (self.peek()[1],))
            return ('and' if t == '&' else 'or',) + tuple(parts)
        if t in ('=>', '<=', '<=>'):
            self.next()
            right = self.unit_formula()
            if self.peek()[1] in ('&', '|', '=>', '<=', '<=>'):
                raise TffError('binary with ambiguous associativity near %r' % (self.peek()[1],))
            return ({'=>': 'imp', '<=': 'rimp', '<=>': 'iff'}[t], left, right)
        return left

    def unit_formula(self):
        k, v = self.peek()
        if v in ('!', '?'):
            self.next()
            self.expect('[')
            vs = []
            while True:
                var = self.next()
                if var[0] != 'upper':
                    raise TffError('bad variable %r' % (var[1],))
                if self.peek()[1] != ':':
                    raise TffError('untyped variable %s' % var[1])
                self.next()
                vs.append((var[1], self.atomic_type()))
                if self.peek()[1] == ',':
                    self.next()
                    continue
                break
            self.expect(']')
            self.expect(':')
            body = self.unit_formula()
            return ('forall' if v == '!' else 'exists', tuple(vs), body)
        if v == '~':
            self.next()
            return ('not', self.unit_formula())
        if v == '(':
            self.next()
            f = self.logic_formula()
            self.expect(')')
            if self.peek()[1] in ('=', '!='):
                raise TffError('formula used as a term')
            return f
        # atomic formula or infix (in)equality
        t = self.term()
        if self.peek()[1] in ('=', '!='):
            op = self.next()[1]
            r = self.term()
            eq = ('eq', t, r)
            return eq if op == '=' else ('not', eq)
        return ('atomf', t)

    def term(self):
        k, v = self.next()
        if k == 'num':
            return ('num', int(v))
        if k == 'upper':
            return ('var', v)
        if k in ('lower', 'dollar'):
            if self.peek()[1] == '(':
                self.next()
                args = [self.term()]
                while self.peek()[1] == ',':
                    self.next()
                    args.append(self.term())
                self.expect(')')
                return ('app', v, tuple(args))
            return ('app', v, ())
        raise TffError('unexpected token %r in term' % (v,))


def parse_problem(text):
    p = Parser(text)
    out = []
    while not p.at_end():
        out.append(p.annotated())
    return out


def parse_formula(text):
    p = Parser(text)
    f = p.logic_formula()
    if not p.at_end():
        raise TffError('trailing input after formula: %r' % (p.peek()[1],))
    return f


# ---------------------------------------------------------------- typing

BUILTIN = {
    '$sum': (('$int', '$int'), '$int'), '$difference': (('$int', '$int'), '$int'), '$product': (('$int', '$int'), '$int'),
    '$uminus': (('$int',), '$int'), '$less': (('$int', '$int'), '$o'), '$lesseq': (('$int', '$int'), '$o'),
    '$greater': (('$int', '$int'), '$o'), '$greatereq': (('$int', '$int'), '$o'), '$true': ((), '$o'), '$false': ((), '$o'),
}


class Signature:
    def __init__(self):
        self.types = {'$int', '$o', '$tType'}
        self.decls = {}         # identifier -> type (('fun', args, res) or atomic)
        self.decl_count = {}
        self.errors = []

    def declare(self, ident, ty):
        self.decl_count[ident] = self.decl_count.get(ident, 0) + 1
        if ty == '$tType':
            self.types.add(ident)
            if ident in self.decls:
                self.errors.append('%s declared both as a type and as a symbol' % ident)
            return
        if ident in self.decls:
            if self.decls[ident] != ty:
                self.errors.append('%s declared at two different types: %s and %s' % (ident, show_type(self.decls[ident]), show_type(ty)))
            else:
                self.errors.append('%s declared twice' % ident)
        self.decls[ident] = ty

    def sig_of(self, ident):
        if ident in BUILTIN:
            return BUILTIN[ident]
        ty = self.decls.get(ident)
        if ty is None:
            return None
        if isinstance(ty, tuple):
            return ty[1], ty[2]
        return (), ty


def show_type(ty):
    if isinstance(ty, tuple):
        return '(%s) > %s' % (' * '.join(ty[1]), ty[2])
    return ty


def check_problem(items):
    """Well-formedness of a whole problem: returns (signature, list of error strings)."""
    sig = Signature()
    errors = []
    names = {}
    nconj = 0
    for it in items:
        names[it['name']] = names.get(it['name'], 0) + 1
        if it['role'] == 'type':
            _, ident, ty = it['body']
            for t in ([ty] if not isinstance(ty, tuple) else list(ty[1]) + [ty[2]]):
                if t not in sig.types and t != '$tType':
                    errors.append('type %s used before/without declaration in %s' % (t, it['name']))
            sig.declare(ident, ty)
    for n, c in names.items():
        if c > 1:
            errors.append('formula name %s used %d times' % (n, c))
    used = set()
    for it in items:
        if it['role'] == 'type':
            continue
        if it['role'] == 'conjecture':
            nconj += 1
        elif it['role'] != 'axiom':
            errors.append('unexpected role %s' % it['role'])
        try:
            ty = type_formula(it['body'], sig, {}, used)
            if ty != '$o':
                errors.append('%s is not a formula' % it['name'])
        except TffError as e:
            errors.append('%s: %s  [identifiers: %s]' % (it['name'], e, ' '.join(sorted(identifiers(it['body'])))))
    if nconj != 1:
        errors.append('%d conjectures' % nconj)
    errors += sig.errors
    return sig, errors, used


def identifiers(f, acc=None):
    acc = set() if acc is None else acc
    if isinstance(f, tuple):
        if f and f[0] == 'app':
            acc.add(f[1])
        for x in (f[1:] if f and isinstance(f[0], str) else f):
            identifiers(x, acc)
    return acc


def type_formula(f, sig, env, used):
    tag = f[0]
    if tag in ('and', 'or'):
        for x in f[1:]:
            if type_formula(x, sig, env, used) != '$o':
                raise TffError('non-formula operand')
        return '$o'
    if tag in ('imp', 'rimp', 'iff'):
        for x in f[1:]:
            if type_formula(x, sig, env, used) != '$o':
                raise TffError('non-formula operand')
        return '$o'
    if tag == 'not':
        if type_formula(f[1], sig, env, used) != '$o':
            raise TffError('non-formula operand of ~')
        return '$o'
    if tag in ('forall', 'exists'):
        env2 = dict(env)
        seen = set()
        for (v, ty) in f[1]:
            if ty not in sig.types or ty in ('$o', '$tType'):
                raise TffError('variable %s of unknown type %s' % (v, ty))
            if v in seen:
                raise TffError('variable %s bound twice in one quantifier' % v)
            seen.add(v)
            env2[v] = ty
        if type_formula(f[2], sig, env2, used) != '$o':
            raise TffError('quantifier over a non-formula')
        return '$o'
    if tag == 'eq':
        a = type_term(f[1], sig, env, used)
        b = type_term(f[2], sig, env, used)
        if a != b or a == '$o':
            raise TffError('equation between %s and %s' % (a, b))
        return '$o'
    if tag == 'atomf':
        return type_term(f[1], sig, env, used)
    raise TffError('unknown node %r' % (tag,))


def type_term(t, sig, env, used):
    tag = t[0]
    if tag == 'num':
        return '$int'
    if tag == 'var':
        if t[1] not in env:
            raise TffError('variable %s is not bound by a typed quantifier' % t[1])
        return env[t[1]]
    if tag == 'app':
        s = sig.sig_of(t[1])
        if s is None:
            raise TffError('%s is used but not declared' % t[1])
        if not t[1].startswith('$'):
            used.add(t[1])
        args, res = s
        if len(args) != len(t[2]):
            raise TffError('%s applied to %d arguments, declared with %d' % (t[1], len(t[2]), len(args)))
        for a, want in zip(t[2], args):
            got = type_term(a, sig, env, used)
            if got != want:
                raise TffError('argument of %s has type %s, expected %s' % (t[1], got, want))
        return res
    raise TffError('unknown term %r' % (tag,))


# ---------------------------------------------------------------- standard interpretation -> z3

class Interp:
    """Translate a parsed formula into z3 under the standard interpretation.
    meaning: identifier -> ('pred', name, arity) | ('sym', name) | ('fc', name, sort in g/i/s).
    Free variables are read by their suffix (_g/_i/_s) - formula-level checks only."""

    def __init__(self, ctx, meaning, predmap=None):
        self.ctx = ctx
        self.meaning = meaning
        self.predmap = predmap

    def sort_of_type(self, ty):
        c = self.ctx
        return {'general': c.G, '$int': z3.IntSort(), 'symbol': c.Sym}[ty]

    def formula(self, f, env=None):
        env = env or {}
        tag = f[0]
        c = self.ctx
        if tag == 'and':
            return z3.And(*[self.formula(x, env) for x in f[1:]])
        if tag == 'or':
            return z3.Or(*[self.formula(x, env) for x in f[1:]])
        if tag == 'imp':
            return z3.Implies(self.formula(f[1], env), self.formula(f[2], env))
        if tag == 'rimp':
            return z3.Implies(self.formula(f[2], env), self.formula(f[1], env))
        if tag == 'iff':
            return self.formula(f[1], env) == self.formula(f[2], env)
        if tag == 'not':
            return z3.Not(self.formula(f[1], env))
        if tag in ('forall', 'exists'):
            env2 = dict(env)
            bound = []
            # canonical names (nesting depth, position), as in sem.Ctx._bind: identical structure => identical solver terms
            depth = env.get('__depth__', 0)
            env2['__depth__'] = depth + 1
            seen = []
            for (v, ty) in f[1]:
                if v in seen:
                    continue
                k = z3.Const('b%d_%d$%s' % (depth, len(seen), {'general': 'g', '$int': 'i', 'symbol': 's'}[ty]), self.sort_of_type(ty))
                seen.append(v)
                env2[v] = k
                bound.append(k)
            body = self.formula(f[2], env2)
            return z3.ForAll(bound, body) if tag == 'forall' else z3.Exists(bound, body)
        if tag == 'eq':
            return self.term(f[1], env) == self.term(f[2], env)
        if tag == 'atomf':
            return self.term(f[1], env)
        raise TffError('unknown node %r' % (tag,))

    def term(self, t, env):
        c = self.ctx
        G = c.G
        tag = t[0]
        if tag == 'num':
            return z3.IntVal(t[1])
        if tag == 'var':
            if t[1] in env:
                return env[t[1]]
            m = re.fullmatch(r'(.*)_([gis])', t[1])
            if not m:
                raise TffError('free variable %s without sort suffix' % t[1])
            return c.const('var', m.group(1), m.group(2))
        name, args = t[1], [self.term(a, env) for a in t[2]]
        if name == '$true':
            return z3.BoolVal(True)
        if name == '$false':
            return z3.BoolVal(False)
        if name == '$sum':
            return args[0] + args[1]
        if name == '$difference':
            return args[0] - args[1]
        if name == '$product':
            return args[0] * args[1]
        if name == '$uminus':
            return -args[0]
        if name == '$less':
            return args[0] < args[1]
        if name == '$lesseq':
            return args[0] <= args[1]
        if name == '$greater':
            return args[0] > args[1]
        if name == '$greatereq':
            return args[0] >= args[1]
        if name == 'f__integer__':
            return G.int(args[0])
        if name == 'f__symbolic__':
            return G.sym(args[0])
        if name == 'c__infimum__':
            return G.inf
        if name == 'c__supremum__':
            return G.sup
        if name == 'p__is_integer__':
            return G.is_int(args[0])
        if name == 'p__is_symbolic__':
            return G.is_sym(args[0])
        if name in ('p__less_equal__', 'p__less__', 'p__greater_equal__', 'p__greater__'):
            r = {'p__less_equal__': '<=', 'p__less__': '<', 'p__greater_equal__': '>=', 'p__greater__': '>'}[name]
            return c.rel(r, args[0], args[1])
        m = self.meaning.get(name)
        if m is None:
            raise TffError('no meaning for identifier %s' % name)
        if m[0] == 'pred':
            p = self.predmap(m[1], m[2], '') if self.predmap else c.pred(m[1], m[2])
            if len(args) != m[2]:
                raise TffError('%s used with %d arguments' % (name, len(args)))
            return p(*args) if args else p()
        if m[0] == 'sym':
            return c.symbol(m[1])
        if m[0] == 'fc':
            return c.const('fc', m[1], m[2])
        raise TffError('bad meaning %r' % (m,))
