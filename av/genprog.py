"""Grammar-based generator of small mini-gringo programs for the task-level checks (C03, C09, C12, C19): every
head kind, 0-3 body literals with every sign, comparisons, light arithmetic, and - the point of it - predicate and constant
names drawn from one *confusable* pool (names that are also the here/there copies of other names, names used both as
propositional atom and as constant, names extending one another by a digit / letter / underscore).

Programs are plain text; the generator is deterministic in its seed. Names ending in `__s` are deliberately not produced
(the collision with anthem's renaming suffix is a recorded finding of C03 with its own corpus entries)."""
import random

PRED0 = ['p', 's', 'a', 'hp', 'tp']
PRED1 = ['p', 'q', 'hp', 'tq', 'a']
PRED2 = ['r', 'p', 'tr']
CONSTS = ['a', 'b', 's', 'hs', 'ts', 'p', 'p0', 'p_', 'pA', 'hp', 'tq']
VARS = ['X', 'Y']
RELS = ['=', '!=', '<', '<=', '>', '>=']


def term(rnd, depth=0, arithmetic=True):
    k = rnd.random()
    if k < 0.45:
        return rnd.choice(VARS)
    if k < 0.7:
        return rnd.choice(CONSTS)
    if k < 0.85 or not arithmetic or depth > 0:
        return str(rnd.choice([0, 1, 2, 5, -1]))
    if k < 0.95:
        return '%s %s %s' % (rnd.choice(VARS), rnd.choice(['+', '-']), rnd.choice(['1', '2', rnd.choice(VARS)]))
    return '%d..%d' % (rnd.choice([0, 1]), rnd.choice([2, 3]))


def atom(rnd, head=False, arithmetic=True):
    ar = rnd.choice([0, 1, 1, 1, 2])
    if ar == 0:
        return rnd.choice(PRED0)
    if ar == 1:
        return '%s(%s)' % (rnd.choice(PRED1), term(rnd, arithmetic=arithmetic))
    return '%s(%s, %s)' % (rnd.choice(PRED2), term(rnd, arithmetic=arithmetic), term(rnd, 1, arithmetic=arithmetic))


def literal(rnd, arithmetic=True):
    k = rnd.random()
    if k < 0.2:
        return '%s %s %s' % (term(rnd, arithmetic=arithmetic), rnd.choice(RELS), term(rnd, 1, arithmetic=arithmetic))
    sign = rnd.choice(['', '', '', 'not ', 'not ', 'not not '])
    return sign + atom(rnd, arithmetic=False)


def rule(rnd, arithmetic=True):
    k = rnd.random()
    nb = rnd.choice([0, 1, 1, 2, 2, 3])
    body = [literal(rnd, arithmetic) for _ in range(nb)]
    if k < 0.15:
        if not body:
            body = [literal(rnd, arithmetic)]
        return ':- %s.' % ', '.join(body)
    h = atom(rnd, True, arithmetic)
    if k < 0.3:
        h = '{%s}' % h
    return (h + ' :- ' + ', '.join(body) + '.') if body else h + '.'


def program(rnd, arithmetic=True):
    return ' '.join(rule(rnd, arithmetic) for _ in range(rnd.choice([1, 1, 2, 2, 3])))


def variant(rnd, prog):
    """A program related to `prog`: sometimes strongly equivalent (body reordered, a literal duplicated), sometimes not
    (a literal dropped, `not not` inserted, a constant or a relation replaced)."""
    rules = [r for r in prog.split('. ')]
    rules = [r if r.endswith('.') else r + '.' for r in rules]
    i = rnd.randrange(len(rules))
    r = rules[i]
    if ':-' in r and not r.startswith(':-'):
        head, body = r[:-1].split(' :- ', 1)
    elif r.startswith(':-'):
        head, body = '', r[3:-1]
    else:
        head, body = r[:-1], ''
    lits = split_top(body) if body else []
    k = rnd.randrange(6)
    if k == 0 and len(lits) > 1:
        rnd.shuffle(lits)
    elif k == 1 and lits:
        lits.append(rnd.choice(lits))
    elif k == 2 and lits:
        lits.pop(rnd.randrange(len(lits)))
    elif k == 3 and lits:
        j = rnd.randrange(len(lits))
        if not any(rel in lits[j] for rel in ('=', '<', '>')):
            lits[j] = 'not not ' + lits[j] if not lits[j].startswith('not') else lits[j][4:]
    elif k == 4:
        lits.append(literal(rnd, False))
    else:
        return prog + ' ' + rule(rnd, False)
    if head:
        new = head + (' :- ' + ', '.join(lits) if lits else '') + '.'
    else:
        if not lits:
            lits = [literal(rnd, False)]
        new = ':- ' + ', '.join(lits) + '.'
    rules[i] = new
    return ' '.join(rules)


def split_top(body):
    out, depth, cur = [], 0, ''
    for ch in body:
        if ch == '(':
            depth += 1
        elif ch == ')':
            depth -= 1
        if ch == ',' and depth == 0:
            out.append(cur.strip())
            cur = ''
        else:
            cur += ch
    if cur.strip():
        out.append(cur.strip())
    return out


def pairs(seed, n, arithmetic=True):
    rnd = random.Random(seed * 7919 + 13)
    out = []
    while len(out) < n:
        p = program(rnd, arithmetic)
        q = variant(rnd, p) if rnd.random() < 0.8 else program(rnd, arithmetic)
        if p != q:
            out.append((p, q))
    return out


if __name__ == '__main__':
    for a, b in pairs(0, 12):
        print(a, ' || ', b)
