"""C02 - external-equivalence obligations are refuted exactly by behavioural differences."""
import glob
import os
import random

import z3

from . import bridge as bridge_mod
from . import cliagree
from . import driver
from .checks_common import generic_replay
from .refext import closure, reference, replace_placeholders, ug_info
from . import stable as st
from .c04 import asp_constants
from .sem import Ctx, free_vars
from .sem import asp_preds, fol_preds, fol_size
from .sexp import Q, render
from .tasks import *

PROPERTY = 'C02'
LEVEL = 'translation_validation'
HARD_TIMEOUT = 300

# (name, kind, left, right, user guide)
TASKS = [
    ('private-left', 'program', 'p(X) :- q(X), not r(X). r(X) :- q(X), X > 3.', 'p(X) :- q(X), X <= 3.',
     'input: q/1. output: p/1.'),
    ('private-clash', 'program', 'p(X) :- q(X), not r(X). r(X) :- q(X), X > 3.', 'p(X) :- q(X), r(X). r(X) :- q(X), X <= 3.',
     'input: q/1. output: p/1.'),
    ('private-clash-left-body-only', 'program', 'granted(X) :- request(X), not blocked(X).',
     'granted(X) :- request(X), not blocked(X). blocked(X) :- request(X), X > 3.', 'input: request/1. output: granted/1.'),
    ('private-clash-right-body-only', 'program', 'granted(X) :- request(X), not blocked(X). blocked(X) :- request(X), X > 3.',
     'granted(X) :- request(X), not blocked(X).', 'input: request/1. output: granted/1.'),
    ('private-clash-and-literal-suffix', 'program', 'p(X) :- q(X), not r(X), not r_p(X). r(X) :- q(X), X > 3. r_p(X) :- q(X), X < 0.',
     'p(X) :- q(X), not r(X). r(X) :- q(X), X > 5.', 'input: q/1. output: p/1.'),
    ('placeholder-integer', 'program', 'p(1..n).', 'p(X) :- X = 1..n.', 'input: n -> integer. output: p/1. assumption: n >= 0.'),
    ('placeholder-arith', 'program', 'p(X) :- q(X), X < n + 1.', 'p(X) :- q(X), X <= n.',
     'input: n -> integer. input: q/1. output: p/1.'),
    ('placeholder-general', 'program', 'p(X) :- q(X), X != c.', 'p(X) :- q(X), not r(X). r(c).',
     'input: c. input: q/1. output: p/1.'),
    ('placeholder-symbol-vs-symbol', 'program', 'p(X) :- q(X), X = c.', 'p(c) :- q(c).', 'input: c -> symbol. input: q/1. output: p/1.'),
    ('choice-constraint', 'program', '{p(X)} :- q(X). :- p(X), p(Y), X != Y.', '{p(X)} :- q(X). :- p(X), p(Y), X < Y.',
     'input: q/1. output: p/1.'),
    ('output-missing-right', 'program', 'p(X) :- q(X). t(X) :- q(X), X > 0.', 'p(X) :- q(X).', 'input: q/1. output: p/1. output: t/1.'),
    ('output-missing-left', 'program', 'p(X) :- q(X).', 'p(X) :- q(X). t(X) :- p(X), not q(X).', 'input: q/1. output: p/1. output: t/1.'),
    ('assumption-over-inputs', 'program', 'p(X) :- q(X), r(X, Y).', 'p(X) :- r(X, Y).',
     'input: q/1. input: r/2. output: p/1. assumption: forall X Y (r(X, Y) -> q(X)).'),
    ('propositional', 'program', 'p :- q, not s. s :- not q.', 'p :- q.', 'input: q/0. output: p/0.'),
    ('symbol-vs-zero-ary-predicate', 'program', 'p(q) :- q. p(a) :- not q.', 'p(X) :- X = q, q. p(a) :- not q.', 'input: q/0. output: p/1.'),
    ('interval-head-choice', 'program', '{p(1..3)}. :- p(X), q(X).', '{p(X)} :- X = 1..3. :- q(X), p(X).', 'input: q/1. output: p/1.'),
    ('division', 'program', 'p(X / 2) :- q(X).', 'p(Y) :- q(X), Y = X / 2.', 'input: q/1. output: p/1.'),
    ('spec-universal', 'spec', 'assumption: forall X (q(X) -> exists N$i (X = N$i)). spec: forall X (p(X) <-> q(X) and X > 0).',
     'p(X) :- q(X), X > 0.', 'input: q/1. output: p/1.'),
    ('spec-directions', 'spec',
     'assumption(forward): forall X (q(X) -> X > 0). spec(forward): forall X (p(X) -> q(X)). '
     'spec(backward): forall X (q(X) and X > 1 -> p(X)). spec: forall X (p(X) -> X != 5).',
     'p(X) :- q(X), X > 1, X != 5.', 'input: q/1. output: p/1.'),
    ('spec-placeholder-private', 'spec',
     'spec: forall X (p(X) <-> exists N$i (X = N$i and 1 <= N$i <= n$i and not q(X))).',
     'p(X) :- X = 1..n, not q(X), not aux(X). aux(X) :- q(X), X > n.', 'input: n -> integer. input: q/1. output: p/1.'),
    ('spec-private-predicate', 'spec', 'spec: forall X (h(X) <-> q(X) and X > 2). spec: forall X (p(X) <-> h(X)).',
     'p(X) :- q(X), X > 2.', 'input: q/1. output: p/1.'),
    ('spec-exists-equivalence', 'spec', 'spec: exists X (p(X) <-> q(X)). spec: forall X (exists Y (p(Y) <-> q(X))). '
     'spec(backward): exists X$i (p(X$i) <-> not q(X$i)).', 'p(1) :- not q(1).', 'input: q/1. output: p/1.'),
    ('spec-nested-equivalences', 'spec', 'spec: forall X ((p(X) <-> q(X)) or X != 1). spec: forall X (forall Y (p(X) <-> not q(Y)) -> X = 1). '
     'spec: (forall X (p(X) <-> X = 1)) <-> not q(1).', 'p(1) :- not q(1).', 'input: q/1. output: p/1.'),
    ('many-conclusions', 'program', 'p(X) :- q(X). t(X) :- p(X), X > 1. u(X) :- t(X), not p(0). :- u(5).',
     'p(X) :- q(X). t(X) :- q(X), X > 1. u(X) :- q(X), X > 1, not q(0). :- q(5), not q(0).', 'input: q/1. output: p/1. output: t/1. output: u/1.'),
    ('no-premises-spec', 'spec', 'spec: forall X (p(X) <-> q(X)). spec: forall X (t(X) <-> q(X) and X > 0). spec: forall X (u(X) <-> t(X) or p(X)).',
     'p(X) :- q(X). t(X) :- q(X), X > 0. u(X) :- t(X). u(X) :- p(X).', 'input: q/1. output: p/1. output: t/1. output: u/1.'),
    ('zero-axioms-forward', 'spec', 'spec(backward): forall X (p(X) -> q(X)). spec(backward): forall X (t(X) -> q(X)).',
     'p(X) :- q(X), X > 0. t(X) :- q(X), not p(X). :- q(X), X < -5.', 'input: q/1. output: p/1. output: t/1.'),
    ('spec-placeholder-under-negation', 'spec', 'spec: forall X (p(X) <-> q(X) and not X > n). assumption: not n < 1. '
     'spec: not exists X (p(X) and not (X <= n and not X = m)) or p(m).', 'p(X) :- q(X), X < n.',
     'input: n -> integer. input: m -> general. input: q/1. output: p/1. assumption: not n > 100. assumption: forall X (q(X) -> not not X != m).'),
    # constraints whose body is a single atom (after simplification they look like an empty completed definition): on a
    # private predicate, on a 0-ary private predicate, on an input, on an output; false and true claims
    ('constraint-on-private-atom-false', 'program', 'p(X) :- q(X).', 'p(X) :- q(X). bad(X) :- q(X), s(X). :- bad(X).',
     'input: q/1. input: s/1. output: p/1.'),
    ('constraint-on-private-atom-true', 'program', 'p(X) :- q(X). :- q(X), s(X).', 'p(X) :- q(X). bad(X) :- q(X), s(X). :- bad(X).',
     'input: q/1. input: s/1. output: p/1.'),
    ('constraint-on-private-proposition-false', 'program', 'p(X) :- q(X).', 'p(X) :- q(X). bad :- q(X), X < 0. :- bad.',
     'input: q/1. output: p/1.'),
    ('constraint-on-input-and-output-atoms', 'program', 'p(X) :- q(X). :- s(X).', 'p(X) :- q(X). :- s(X). :- p(5).',
     'input: q/1. input: s/1. output: p/1.'),
    ('constraint-on-private-atom-in-spec-program', 'program', 'p(X) :- q(X). bad(X) :- q(X), s(X). :- bad(X).', 'p(X) :- q(X).',
     'input: q/1. input: s/1. output: p/1.'),
    # specification formulas with an equivalence inside an implication (either orientation), inside a conjunction, under
    # quantifiers on one side only: what equivalence breaking may and may not split; true and false claims
    ('spec-equivalence-under-implication', 'spec', 'spec: r -> (p <-> q). spec: r <- (p <-> q).', 'r :- p, q. r :- not p, not q.',
     'input: p/0. input: q/0. output: r/0.'),
    ('spec-equivalence-under-implication-false', 'spec', 'spec: r <- (p <-> q).', 'r :- p, q.', 'input: p/0. input: q/0. output: r/0.'),
    ('spec-equivalence-under-implication-fo', 'spec', 'spec: forall X (t(X) -> (p(X) <-> q(X))). spec: forall X (s(X) -> (t(X) <- (p(X) <-> q(X)))).',
     't(X) :- s(X), p(X), q(X). t(X) :- s(X), not p(X), not q(X).', 'input: p/1. input: q/1. input: s/1. output: t/1. assumption: forall X (p(X) or q(X) -> s(X)).'),
    ('spec-equivalence-in-conjunction-and-antecedent', 'spec', 'spec: forall X (t(X) <-> p(X)) and forall Y (u(Y) <-> exists Z (q(Z) and Z = Y)). '
     'spec: (forall X (t(X) <-> u(X))) -> forall X (p(X) -> q(X)).', 't(X) :- p(X). u(X) :- q(X).', 'input: p/1. input: q/1. output: t/1. output: u/1.'),
    # one placeholder name written at two sorts (the user guide declares one, a formula writes the other)
    ('placeholder-name-at-two-sorts', 'spec', 'assumption: n$i >= 1. spec: forall X (p(X) <-> q(X) and X != n).', 'p(X) :- q(X), X != n.',
     'input: n. input: q/1. output: p/1.'),
    ('placeholder-name-at-two-sorts-symbol', 'spec', 'assumption: c$i > 0. spec: forall X (p(X) <-> q(X) and X != c$s and X != c$i).', 'p(X) :- q(X), X != c.',
     'input: c -> symbol. input: q/1. output: p/1.'),
    # program variables V<n> with different digit counts (fresh head variables are chosen numerically)
    ('v-names-diagonal-false', 'program', 'p(V9) :- q(V9, V10).', 'p(X) :- q(X, X).', 'input: q/2. output: p/1.'),
    ('v-names-projection-true', 'program', 'p(V9) :- q(V9, V10).', 'p(X) :- q(X, Y).', 'input: q/2. output: p/1.'),
    # false claims (refutable obligations): weakened or vacuous premises cannot hide behind a true claim
    ('false-placeholder-integer', 'program', 'p(1..n).', 'p(X) :- X = 0..n.', 'input: n -> integer. output: p/1. assumption: n >= 0.'),
    ('false-placeholder-general', 'program', 'p(X) :- q(X), X != c.', 'p(X) :- q(X), not r(X). r(c). r(0).', 'input: c. input: q/1. output: p/1.'),
    ('false-private-left', 'program', 'p(X) :- q(X), not r(X). r(X) :- q(X), X > 3.', 'p(X) :- q(X), X < 3.', 'input: q/1. output: p/1.'),
    ('false-spec-directions', 'spec',
     'assumption(forward): forall X (q(X) -> X > 0). spec(forward): forall X (p(X) -> q(X) and X > 2). '
     'spec(backward): forall X (q(X) and X > 1 -> p(X)). spec: forall X (p(X) -> X != 5).', 'p(X) :- q(X), X > 1, X != 6.', 'input: q/1. output: p/1.'),
    ('false-assumption-over-inputs', 'program', 'p(X) :- q(X), r(X, Y).', 'p(X) :- r(X, Y).',
     'input: q/1. input: r/2. output: p/1. assumption: forall X Y (r(X, Y) -> q(Y)).'),
    ('constraint-only-right', 'program', 'p(X) :- q(X). :- q(X), X < 0.', 'p(X) :- q(X), X >= 0. :- q(X), not p(X).',
     'input: q/1. output: p/1.'),
]

# tasks that a correct anthem refuses (private recursion, non-tight program, private choice): skipped on a correct tree;
# if a precondition is silently not enforced the behavioural link below decides whether the emitted problems still mean
# what the property says
REFUSABLE = [
    ('refusable-private-negative-loop-left', 'program', 'switch :- not switch. q(X) :- p(X), not switch.', 'q(X) :- p(X).', 'input: p/1. output: q/1.'),
    ('refusable-private-negative-loop-right', 'program', 'q(X) :- p(X).', 'switch :- not switch. q(X) :- p(X), not switch.', 'input: p/1. output: q/1.'),
    ('refusable-private-positive-loop-left', 'program', 'r(X) :- r(X). q(X) :- p(X), not r(X).', 'q(X) :- p(X).', 'input: p/1. output: q/1.'),
    ('refusable-private-positive-loop-right', 'program', 'q(X) :- p(X).', 'r(X) :- r(X), p(X). q(X) :- p(X), not r(X).', 'input: p/1. output: q/1.'),
    ('refusable-private-even-loop', 'program', 'a :- not b. b :- not a. q(X) :- p(X), a.', 'q(X) :- p(X).', 'input: p/1. output: q/1.'),
    ('refusable-private-choice', 'program', '{r(X)} :- p(X). q(X) :- r(X).', 'q(X) :- p(X).', 'input: p/1. output: q/1.'),
    ('refusable-non-tight-public', 'program', 'q(X) :- q(X). q(X) :- p(X).', 'q(X) :- p(X).', 'input: p/1. output: q/1.'),
    ('refusable-non-tight-public-right', 'program', 'q(X) :- p(X).', 'q(X) :- t(X). t(X) :- q(X). q(X) :- p(X).', 'input: p/1. output: q/1. output: t/1.'),
    ('refusable-input-in-head', 'program', 'p(a). q(X) :- p(X).', 'q(X) :- p(X).', 'input: p/1. output: q/1.'),
]


def example_tasks():
    out = []
    base = os.path.join(bridge_mod.REPO, 'res', 'examples', 'external_equivalence')
    for d in sorted(glob.glob(os.path.join(base, '*')) + glob.glob(os.path.join(base, '*', '*'))):
        if not os.path.isdir(d):
            continue
        lps = sorted(glob.glob(os.path.join(d, '*.lp')))
        specs = sorted(glob.glob(os.path.join(d, '*.spec')))
        ugs = sorted(glob.glob(os.path.join(d, '*.ug')))
        if not ugs or not lps:
            continue
        rd = lambda p: open(p).read()
        name = os.path.relpath(d, base)
        for ug in ugs:
            if specs:
                out.append(('example:%s:%s' % (name, os.path.basename(ug)), 'spec', rd(specs[0]), rd(lps[0]), rd(ug)))
            if len(lps) >= 2:
                out.append(('example:%s:%s:lp-lp' % (name, os.path.basename(ug)), 'program', rd(lps[0]), rd(lps[1]), rd(ug)))
    return out


GEN_PRIVATE = ['r(X) :- q(X), X > 2.', 'r(X) :- q(X), not s(X).', 's(X) :- q(X), X != a.', 'r(X) :- e(X, Y), q(Y).', 's(X) :- e(X, X).',
               'r(X) :- q(X), X = 1..3.', 's(X) :- q(X - 1).',
               # confusable names: a private predicate named like a renamed one, a 0-ary private predicate whose name is also a constant
               'r_p(X) :- q(X), X < 5.', 'r :- q(X), X > 7.', 's(X) :- q(X), X != r.']
GEN_PUBLIC = ['p(X) :- q(X), not r(X).', 'p(X) :- r(X).', '{p(X)} :- q(X).', 'p(X) :- q(X), X = 1..3.', 't(X) :- p(X), q(X + 1).', ':- p(X), t(X).',
              'p(X) :- q(X), s(X).', 't(X) :- q(X), not p(X).', 'p(X) :- e(X, Y), not s(Y).', 't(X) :- r(X), not s(X).', ':- q(X), not p(X), not t(X).',
              'p(a) :- q(a).', 't(X) :- q(X), X < b.',
              'p(X) :- q(X), not r.', 't(X) :- r_p(X).', ':- r(X).', ':- s(X), q(X).', 'p(r) :- q(r).', 't(X) :- q(X), r < X, X < r0.']
GEN_UG = 'input: q/1. input: e/2. output: p/1. output: t/1.'


def generated_tasks(rnd, n):
    out = []
    for i in range(n):
        progs = []
        for _ in range(2):
            rules = rnd.sample(GEN_PUBLIC, rnd.choice([1, 2, 3])) + rnd.sample(GEN_PRIVATE, rnd.choice([0, 1, 2]))
            rnd.shuffle(rules)
            progs.append(' '.join(rules))
        out.append(('generated-%d' % i, 'program', progs[0], progs[1], GEN_UG))
    return out


def generate(tier, seed):
    items = []
    rnd = random.Random(seed)
    for t in generated_tasks(rnd, 30 if tier == 'quick' else 500):
        for (s, e) in ((True, True), (False, False)) if tier == 'quick' else FLAGS:
            items.append({'family': 'generated-tasks', 'task': t, 'flags': (s, e), 'label': '%s simplify=%s eq-break=%s' % (t[0], s, e)})
    for (s, e) in FLAGS:
        for t in REFUSABLE:
            if (s, e) in ((True, True), (False, False)):
                items.append({'family': 'refusable-tasks', 'task': t, 'flags': (s, e), 'label': '%s simplify=%s eq-break=%s' % (t[0], s, e)})
        for t in TASKS:
            items.append({'family': 'hand-tasks', 'task': t, 'flags': (s, e), 'label': '%s simplify=%s eq-break=%s' % (t[0], s, e)})
        for t in example_tasks():
            if tier == 'quick' and (s, e) != (True, True):
                continue
            items.append({'family': 'repo-examples', 'task': t, 'flags': (s, e), 'label': '%s simplify=%s eq-break=%s' % (t[0], s, e),
                          'timeout_ms': 20000 if tier == 'thorough' else 5000, 'no_retry': True})
    for t in [t for t in TASKS if t[0] in ('private-left', 'private-clash', 'zero-axioms-forward', 'false-placeholder-integer',
                                           'spec-equivalence-under-implication', 'constraint-on-private-atom-false')] + REFUSABLE[:2]:
        items.append({'family': 'cli-agreement', 'task': t, 'cli': True, 'label': 'cli ' + t[0]})
    return items


def run_task(b, task, direction, dec, simp, eqb, outline=''):
    name, kind, left, right, ug = task
    req = ('external_task', Q(kind), Q(left), Q(right), Q(ug), Q(outline), Q(direction), Q(dec),
           Q(str(simp).lower()), Q(str(eqb).lower()), Q('false'))
    return req, b.call(*req, timeout=120)


def renamed_names(problems, left_private, right_private, public):
    """Which emitted predicate name stands for a right-hand private predicate that clashes with a left-hand one:
    <name>_p, or <name>_p<k> when that is taken. Names of the original task are never candidates, unless nothing else
    is there (then the renaming collided, which the obligation will expose)."""
    import re
    clash = left_private & right_private
    original = set(public) | left_private | right_private
    present = set()
    for p in problems:
        for f in p['formulas']:
            present |= fol_preds(f['formula'])
    table = {}
    for (n, a) in sorted(clash):
        new = sorted(x for (x, ar) in present if ar == a and (x, ar) not in original and (x, a) not in table)
        # anthem's current scheme first (<name>_p, <name>_p<k>); then any new name built on <name>; then the only new
        # predicate of that arity - so that a different but consistent naming scheme is not reported as a defect
        cands = [x for x in new if re.fullmatch(re.escape(n) + r'_p\d*', x)] or [x for x in new if x.startswith(n)] \
            or (new if len(new) == 1 else [])
        table[(cands[0] if cands else n + '_p', a)] = (n, a)
    return table


def real_predmap(ctx, table):
    def predmap(name, arity, world):
        if (name, arity) in table:
            return ctx.pred('R:' + table[(name, arity)][0], arity)
        return ctx.pred(name, arity)
    return predmap


def behaviour_link(kind, left_tree, right_tree, ug_tree, probs, d, aliases, left_private, right_private, public,
                   inputs, timeout_ms):
    """Finite-structure re-check of the link between the emitted problems and external behaviour (program vs program,
    arithmetic-free, no placeholders): over the universe D = constants + 2 symbolic elements,
      (exists extents of the conclusion side's private predicates: I refutes an emitted problem of direction d)
      <->  I satisfies the user-guide assumptions, its premise-side part is a stable model of the premise-side program
           with I's input facts, and NO choice of private extents makes its public part a stable model of the
           conclusion-side program.
    Returns [(name, solver result)] or None when the task is outside the fragment."""
    if kind != 'program':
        return None
    inputs_l, outputs_l, placeholders, assumptions, _ = ug_info(ug_tree)
    if placeholders:
        return None
    cl, cr = asp_constants(left_tree), asp_constants(right_tree)
    if cl is None or cr is None:
        return None
    if any(free_vars(a[4]) for a in assumptions):
        return None
    prem_tree, concl_tree = (left_tree, right_tree) if d == 'forward' else (right_tree, left_tree)
    prem_priv, concl_priv = (left_private, right_private) if d == 'forward' else (right_private, left_private)
    prem_is_right = d != 'forward'
    table = renamed_names(probs, left_private, right_private, public)      # real name -> original right-private
    inv = {v: k for k, v in table.items()}
    prem_preds = sorted(asp_preds(prem_tree))
    concl_preds = sorted(asp_preds(concl_tree))
    inputs = set(inputs)
    out = []

    def mk():
        ctx = AliasCtx(aliases)
        dom = [ctx.gval_pkg(c, {})[2] for c in sorted(cl | cr)]
        dom += [ctx.const('dom', 'e1', 'g'), ctx.const('dom', 'e2', 'g')]
        ctx.finite_domain = dom
        return ctx, dom
    ctx, dom = mk()
    nat = sum(len(dom) ** a for (_, a) in concl_priv) + sum(len(dom) ** a for (_, a) in concl_preds if (_, a) not in inputs)
    if nat > 48:
        return None

    def side_interp(ctx, preds, priv, side_tag, priv_bools=None):
        """(name, arity) -> callable for one side: public predicates shared, private ones per side."""
        m = {}
        for (n, a) in preds:
            if (n, a) in priv:
                if priv_bools is not None:
                    m[(n, a)] = st.bool_extent(ctx.finite_domain, a, priv_bools[(n, a)])
                else:
                    m[(n, a)] = ctx.pred('%s:%s' % (side_tag, n), a)
            else:
                m[(n, a)] = ctx.pred(n, a)
        return m

    def real_map(ctx, prem_i, concl_i):
        left_i, right_i = (prem_i, concl_i) if d == 'forward' else (concl_i, prem_i)

        def predmap(name, arity, world):
            if (name, arity) in table:
                return right_i.get(table[(name, arity)], ctx.pred('unmapped:' + name, arity))
            if (name, arity) in left_private and (name, arity) in left_i:
                return left_i[(name, arity)]
            if (name, arity) in right_private and (name, arity) not in left_private and (name, arity) in right_i:
                return right_i[(name, arity)]
            return ctx.pred(name, arity)
        return predmap

    def ug_holds(ctx):
        return z3.And(*[ctx.cl(a[4]) for a in assumptions]) if assumptions else z3.BoolVal(True)

    try:
        # ---- query 1: some interpretation refutes an emitted problem but witnesses no behavioural difference
        ctx, dom = mk()
        prem_i = side_interp(ctx, prem_preds, prem_priv, 'P')
        concl_i = side_interp(ctx, concl_preds, concl_priv, 'C')
        ref_real = refutation(ctx, probs, real_map(ctx, prem_i, concl_i))
        stable_p = st.is_stable(ctx, prem_tree, prem_preds, inputs, prem_i, 'p')
        cb = {p: st.fresh_bools('C2', p[0], p[1], dom) for p in concl_priv}
        concl_i2 = side_interp(ctx, concl_preds, concl_priv, 'C', cb)
        stable_c = st.is_stable(ctx, concl_tree, concl_preds, inputs, concl_i2, 'c')
        cvars = [b for dd in cb.values() for b in dd.values()]
        producible = z3.Exists(cvars, stable_c) if cvars else stable_c
        side = ctx.order_axioms() + ctx.symbol_facts()
        q1 = side + [ref_real, z3.Or(z3.Not(ug_holds(ctx)), z3.Not(stable_p), producible)]
        out.append(('refuted-without-behavioural-difference', driver.solve(q1, timeout_ms)))
        # ---- query 2: a behavioural difference that no emitted problem is refuted by, whatever the private extents
        ctx, dom = mk()
        prem_i = side_interp(ctx, prem_preds, prem_priv, 'P')
        stable_p = st.is_stable(ctx, prem_tree, prem_preds, inputs, prem_i, 'p')
        cb = {p: st.fresh_bools('C2', p[0], p[1], dom) for p in concl_priv}
        concl_i2 = side_interp(ctx, concl_preds, concl_priv, 'C', cb)
        stable_c = st.is_stable(ctx, concl_tree, concl_preds, inputs, concl_i2, 'c')
        cvars = [b for dd in cb.values() for b in dd.values()]
        not_producible = z3.ForAll(cvars, z3.Not(stable_c)) if cvars else z3.Not(stable_c)
        cb3 = {p: st.fresh_bools('C3', p[0], p[1], dom) for p in concl_priv}
        concl_i3 = side_interp(ctx, concl_preds, concl_priv, 'C', cb3)
        ref_real3 = refutation(ctx, probs, real_map(ctx, prem_i, concl_i3))
        c3vars = [b for dd in cb3.values() for b in dd.values()]
        never_refuted = z3.ForAll(c3vars, z3.Not(ref_real3)) if c3vars else z3.Not(ref_real3)
        side = ctx.order_axioms() + ctx.symbol_facts()
        q2 = side + [ug_holds(ctx), stable_p, not_producible, never_refuted]
        out.append(('behavioural-difference-not-refuted', driver.solve(q2, timeout_ms)))
    except ValueError as e:
        return None
    return out


def check_cli(b, item):
    from .c03 import flags_of
    name, kind, left, right, ug = item['task']
    first = 'zz_first.lp' if kind == 'program' else 'zz_first.spec'
    out = []
    for direction, dec, simp, eqb in (('universal', 'sequential', True, True), ('forward', 'independent', False, False),
                                      ('backward', 'sequential', True, False), ('forward', 'sequential', True, True)):
        req = ('external_task', Q(kind), Q(left), Q(right), Q(ug), Q(''), Q(direction), Q(dec), Q(str(simp).lower()), Q(str(eqb).lower()), Q('false'))
        out.append(cliagree.verify(b, item['family'], '%s#%s-%s-%s-%s' % (name, direction, dec, simp, eqb), 'external',
                                   {first: left + '\n', 'aa_second.lp': right + '\n', 'mm_guide.ug': ug + '\n'},
                                   [first, 'aa_second.lp', 'mm_guide.ug'], req, flags_of(direction, dec, simp, eqb)))
    return out


def check_item(item):
    b = bridge_mod.get()
    if item.get('cli'):
        return check_cli(b, item)
    task = item['task']
    name, kind, left, right, ug = task
    base = {'family': item['family'], 'input_key': name, 'twin': item.get('twin', False)}
    out = []
    try:
        ug_tree = b.call('parse_ug', Q(ug))[0]
        right_tree = b.call('parse_program', Q(right))[0]
        left_tree = b.call('parse_program', Q(left))[0] if kind == 'program' else b.call('parse_spec', Q(left))[0]
    except bridge_mod.BridgeError as e:
        return [{'key': name, 'family': item['family'], 'verdict': 'skipped', 'input': name, 'detail': str(e)}]
    inputs, outputs, placeholders, assumptions, _ = ug_info(ug_tree)
    public = set(inputs) | set(outputs)
    right_private = {p for p in asp_preds(right_tree) if p not in public}
    if kind == 'program':
        left_private = {p for p in asp_preds(left_tree) if p not in public}
    else:
        lp = set()
        for a in left_tree[1:]:
            lp |= fol_preds(a[4])
        left_private = {p for p in lp if p not in public}
    seen = {}
    configs = [(d, dec, s, e) for d in DIRECTIONS for dec in DECOMPOSITIONS for (s, e) in [item.get('flags', (True, True))]]
    if item.get('twin'):
        configs = [('forward', 'independent', False, False)]
    for direction, dec, simp, eqb in configs:
        label = '%s  [%s %s simplify=%s eq-break=%s]' % (name, direction, dec, simp, eqb)
        try:
            req, resp = run_task(b, task, direction, dec, simp, eqb)
        except bridge_mod.BridgePanic as e:
            r = dict(base)
            r.update(key=label, input=label, verdict='violation-concrete', signature='external-task-panic',
                     detail='panic: %s' % e, replay={'request': '', 'expected': ''})
            out.append(r)
            continue
        except bridge_mod.BridgeTimeout:
            r = dict(base)
            r.update(key=label, input=label, verdict='observation', detail='task assembly did not finish in 120s')
            out.append(r)
            continue
        if resp[0][:1] == ('refused',):
            r = dict(base)
            r.update(key=label, input=label, verdict='skipped', detail='task refused: %s' % str(resp[0][1])[:200])
            out.append(r)
            continue
        problems = [p for p in parse_problems(resp[0]) if '_outline_' not in p['name']]
        issues = well_formed(problems)
        if issues:
            r = dict(base)
            r.update(key=label + '#wf', input=label, verdict='violation-concrete', signature='external-task-structure',
                     detail='; '.join(issues), replay={'request': render(req), 'expected': render(resp)})
            out.append(r)
            continue
        aliases = symbol_aliases(problems, (left, right, ug))
        want_dirs = {'universal': ['forward', 'backward'], 'forward': ['forward'], 'backward': ['backward']}[direction]
        for d in want_dirs:
            probs = [p for p in problems if direction_of(p) == d]
            key = (d, problems_key(probs))
            r = dict(base)
            r.update(key=label + '#' + d, input='%s %s :: %s || %s || %s' % (label, d, left[:120].replace('\n', ' '),
                                                                            right[:120].replace('\n', ' '), ug[:100].replace('\n', ' ')),
                     obligation='forall I (all predicates, placeholders): I refutes an emitted %s problem <-> I satisfies the '
                                'user-guide assumptions and the %s-direction premises of the reference model and falsifies a '
                                'reference conclusion' % (d, d),
                     output='%d problems' % len(probs))
            if key in seen and not item.get('twin'):
                v = seen[key]
                r.update(verdict='held-concrete' if v == 'unsat' else 'dup-' + v, nontrivial=False,
                         detail='same problems as an earlier configuration')
                out.append(r)
                continue
            wrong = item.get('wrong')

            def build(kw, probs=probs, d=d):
                ctx = AliasCtx(aliases, **kw)
                clash = left_private & right_private
                ref = reference(ctx, kind, left_tree, right_tree, ug_tree,
                                lambda n, a: ctx.pred('R:' + n, a) if (n, a) in clash else ctx.pred(n, a))
                prem, concl = ref[d if wrong != 'swap-direction' else ('backward' if d == 'forward' else 'forward')]
                rhs = z3.And(*(prem + [z3.Not(z3.And(*concl))]))
                lhs = refutation(ctx, probs, real_predmap(ctx, renamed_names(probs, left_private, right_private, public)))
                return ctx.order_axioms() + ctx.symbol_facts(), [(lhs, rhs)]
            res = driver.solve_equiv(build, item.get('timeout_ms', 8000),
                                     ({}, {'relativize_int': True}, {'abstract_order': True}))
            seen[key] = res['verdict']
            r.update(verdict=res['verdict'], ms=res['ms'], nontrivial=True, queries=res.get('queries'),
                     vc_size=sum(fol_size(f['formula']) for p in probs for f in p['formulas']))
            if res['verdict'] == 'sat':
                r['signature'] = 'external-equivalence-meaning:' + name
                r['detail'] = 'problems: %s ; countermodel: %s' % (
                    ' | '.join('%s: %s' % (p['name'], '; '.join('%s %s' % (f['role'], f['tptp']) for f in p['formulas']))
                               for p in probs)[:1200], driver.model_text(res['model'], 900))
                r['replay'] = {'request': render(req), 'expected': render(resp), 'smt2': res['smt2']}
            elif res['verdict'] == 'unknown':
                r['detail'] = res.get('reason')
            out.append(r)
            # (b) behavioural link on a finite structure
            if (dec, simp, eqb) in (('independent', True, True), ('independent', False, False)) and not item.get('twin'):
                link = behaviour_link(kind, left_tree, right_tree, ug_tree, probs, d, aliases, left_private, right_private,
                                      public, inputs, item.get('link_timeout_ms', 30000))
                if link:
                    for lname, rr in link:
                        r2 = dict(base)
                        r2.update(key=label + '#' + d + '#' + lname, family='behavioural-link', nontrivial=True,
                                  input='%s %s [%s]' % (label, d, lname),
                                  obligation='finite structure (constants + 2 symbolic elements): no interpretation with: ' + lname.replace('-', ' '),
                                  verdict=rr['verdict'], ms=rr['ms'])
                        if rr['verdict'] == 'sat':
                            r2['signature'] = 'behavioural-link:' + lname
                            r2['detail'] = 'task %s: %s || %s || %s ; witness: %s' % (name, left[:200], right[:200], ug[:120],
                                                                                     driver.model_text(rr['model'], 1200))
                            r2['replay'] = {'request': render(req), 'expected': render(resp), 'smt2': rr['smt2']}
                        elif rr['verdict'] == 'unknown':
                            r2['detail'] = rr.get('reason')
                        out.append(r2)
    if item.get('twin'):
        return [r for r in out if r.get('verdict') in ('sat', 'unsat', 'unknown')][:1]
    return out


TWINS_EXPECTED = 1


def twins(tier, seed):
    # a reference with the directions swapped must be refuted
    return [{'family': 'twin', 'task': ('twin', 'program', 'p(X) :- q(X).', 'p(X) :- q(X), X > 0.', 'input: q/1. output: p/1.'),
             'wrong': 'swap-direction'}]


def replay(r):
    return generic_replay(r)


def describe(tier):
    return {
        'rule': 'CLI agreement: 8 tasks x 4 flag sets through `anthem verify --equivalence external --save-problems` must print/save byte for byte what the library call returns; tasks generated from rule pools (with confusable names: a private predicate named like a renamed one, a 0-ary private predicate that is also a constant, single-atom constraints); 50 hand-written tasks (program vs program and specification vs program; private predicates on either side '
                'and clashing on both, a program predicate literally named like a renamed private, integer/general/symbol '
                'placeholders inside arithmetic and as plain terms, user-guide assumptions over inputs, choice rules and '
                'constraints, outputs missing from one side, annotated directions) plus every task under '
                'res/examples/external_equivalence, each x 3 directions x 2 decompositions x simplify x eq-break; one '
                'obligation per (task, configuration, direction); identical problem families are decided once; '
                'non-trivial = a solver query was needed',
        'functions': ['verifying::task::external_equivalence::{ExternalEquivalenceTask::decompose, theory_translate, '
                      'control_translate, head_predicate, RenamePredicates, ValidatedExternalEquivalenceTask::decompose, '
                      'AssembledExternalEquivalenceTask::decompose}', 'tau_star, completion, replace_placeholders',
                      'simplifying portfolios (fixpoint)', 'breaking::...::ht', 'verifying::problem::Problem::{decompose_*, '
                      'rename_conflicting_symbols, create_unique_formula_names}'],
        'bounds': 'the listed tasks; integers unbounded; all classical interpretations of input, output and private predicates '
                  'and all placeholder values are solver-quantified',
        'outside': 'tasks beyond the corpus; rejected tasks (C11); proof outlines (C13); TPTP rendering (C06); the link from '
                   'completion to stable models is C04',
        'assumptions': ['reference model av/refext.py (completion built from the rules with the reference term semantics; '
                        'premise/conclusion assembly per direction)', 'classical semantics of av/sem.py', 'z3 verdicts'],
        'trusted_base': ['av/refext.py', 'av/sem.py', 'z3'],
    }
