"""An independent reader for the mini-gringo fragment the generators emit (rules, basic/choice/constraint heads,
literals with not / not not, comparisons, terms with the documented precedence .. < + - < * / \\ < unary minus,
left-associative binary operators, negative numeral tokens). It returns the bridge's S-expression form, so that the tree
anthem's parser builds can be compared with the tree the language definition prescribes. Anything outside the fragment
raises Unsupported (the comparison is then skipped, never reported)."""
import re

from .sexp import Q


class Unsupported(Exception):
    pass


TOK = re.compile(r"""\s*(?:(?P<num>-?[0-9]+)|(?P<var>[A-Z][A-Za-z0-9]*)|(?P<sym>_?[a-z][A-Za-z0-9_]*)|(?P<kw>\#inf(?:imum)?|\#sup(?:remum)?|\#false)|"""
                 r"""(?P<op>:-|\.\.|!=|<=|>=|[-+*/\\(){},;.<>=]))""")
BINOPS = {'..': ('interval', 1), '+': ('add', 2), '-': ('sub', 2), '*': ('mul', 3), '/': ('div', 3), '\\': ('mod', 3)}
RELS = ('=', '!=', '<', '<=', '>', '>=')


def tokenize(text):
    text = re.sub(r'%[^\n]*', '', text)
    pos, out = 0, []
    while pos < len(text):
        if text[pos:].strip() == '':
            break
        m = TOK.match(text, pos)
        if not m:
            raise Unsupported('cannot tokenize at %r' % text[pos:pos + 20])
        pos = m.end()
        k = m.lastgroup
        out.append((k, m.group(k)))
    return out


class P:
    def __init__(self, text):
        self.t = tokenize(text)
        self.i = 0

    def peek(self, k=0):
        return self.t[self.i + k] if self.i + k < len(self.t) else ('eof', '')

    def next(self):
        x = self.peek()
        self.i += 1
        return x

    def expect(self, v):
        x = self.next()
        if x[1] != v:
            raise Unsupported('expected %r got %r' % (v, x[1]))

    # ---- terms (precedence climbing)
    def term(self, minprec=1):
        lhs = self.unary()
        while True:
            k, v = self.peek()
            # a token like `-5` directly after an operand is the binary minus followed by 5 only if written with a space
            # in the generated text; the lexer above reads `-5` as one numeral, which is what anthem's lexer does too
            if k == 'num' and v.startswith('-') and False:
                break
            if k == 'op' and v in BINOPS and BINOPS[v][1] >= minprec:
                name, pr = BINOPS[v]
                self.next()
                rhs = self.term(pr + 1)
                lhs = (name, lhs, rhs)
            else:
                return lhs

    def unary(self):
        k, v = self.peek()
        if k == 'op' and v == '-':
            self.next()
            return ('neg', self.unary())
        return self.primary()

    def primary(self):
        k, v = self.next()
        if k == 'num':
            return ('pnum', str(int(v)))
        if k == 'var':
            return ('var', Q(v))
        if k == 'sym':
            if v == 'not':
                raise Unsupported('keyword in term position')
            return ('psym', Q(v))
        if k == 'kw' and v.startswith('#inf'):
            return ('pinf',)
        if k == 'kw' and v.startswith('#sup'):
            return ('psup',)
        if k == 'op' and v == '(':
            t = self.term()
            self.expect(')')
            return t
        raise Unsupported('unexpected %r in term' % v)

    def atom(self):
        k, v = self.next()
        if k != 'sym' or v == 'not':
            raise Unsupported('atom expected')
        args = []
        if self.peek()[1] == '(':
            self.next()
            args.append(self.term())
            while self.peek()[1] == ',':
                self.next()
                args.append(self.term())
            self.expect(')')
        return ('atom', Q(v)) + tuple(args)

    def body_item(self):
        # literal or comparison: decide by looking for a relation at nesting depth 0 before the next , ; .
        depth, j = 0, self.i
        is_cmp = False
        while j < len(self.t):
            v = self.t[j][1]
            if v == '(':
                depth += 1
            elif v == ')':
                depth -= 1
            elif depth == 0 and v in (',', ';', '.'):
                break
            elif depth == 0 and v in RELS:
                is_cmp = True
                break
            j += 1
        if is_cmp:
            l = self.term()
            rel = self.next()[1]
            if rel not in RELS:
                raise Unsupported('relation expected')
            r = self.term()
            return ('cmp', Q(rel), l, r)
        sign = 'pos'
        if self.peek() == ('sym', 'not'):
            self.next()
            sign = 'not'
            if self.peek() == ('sym', 'not'):
                self.next()
                sign = 'notnot'
        return ('lit', sign, self.atom())

    def rule(self):
        k, v = self.peek()
        if v == ':-':
            head = ('falsity',)
        elif k == 'kw' and v == '#false':
            self.next()
            head = ('falsity',)
        elif v == '{':
            self.next()
            a = self.atom()
            self.expect('}')
            head = ('choice', a)
        else:
            head = ('basic', self.atom())
        body = []
        if self.peek()[1] == ':-':
            self.next()
            if self.peek()[1] != '.':
                body.append(self.body_item())
                while self.peek()[1] in (',', ';'):
                    self.next()
                    body.append(self.body_item())
        self.expect('.')
        return ('rule', head, tuple(body))

    def program(self):
        rules = []
        while self.peek()[0] != 'eof':
            rules.append(self.rule())
        return ('program',) + tuple(rules)


def parse_program(text):
    return P(text).program()
