"""Stable models over a finite structure, as z3 formulas (used by the behavioural link of C02).

Universe D: a list of G terms (the constants of the task plus symbolic extra elements). An interpretation of a
predicate is a Python callable taking G terms and returning a z3 Bool (an uninterpreted function, or an extent
parametrised by one Boolean per atom over D so that it can be quantified)."""
import itertools

import z3


def atoms_over(dom, arity):
    return list(itertools.product(range(len(dom)), repeat=arity))


def bool_extent(dom, arity, bools):
    """Extent given by one Boolean per tuple of domain indices."""
    def app(*xs):
        opts = []
        for idx in atoms_over(dom, arity):
            opts.append(z3.And(*([x == dom[i] for x, i in zip(xs, idx)] + [bools[idx]])))
        return z3.Or(*opts) if opts else z3.BoolVal(False)
    return app


def fresh_bools(prefix, name, arity, dom):
    return {idx: z3.Bool('%s:%s/%d:%s' % (prefix, name, arity, '-'.join(map(str, idx)))) for idx in atoms_over(dom, arity)}


def with_interp(ctx, world, interp):
    for (n, a), f in interp.items():
        ctx.pred_override[(n, a, world)] = f


def satisfies(ctx, program, interp):
    """T |= P classically (finite structure), T given by interp: (name, arity) -> callable."""
    with_interp(ctx, 't', interp)
    return z3.And(*[ctx.rule_ref(r, 't') for r in program[1:]]) if len(program) > 1 else z3.BoolVal(True)


def ht_satisfies(ctx, program, h_interp, t_interp):
    with_interp(ctx, 't', t_interp)
    with_interp(ctx, 'h', h_interp)
    return z3.And(*[ctx.rule_ref(r, 'h') for r in program[1:]]) if len(program) > 1 else z3.BoolVal(True)


def is_stable(ctx, program, preds, inputs, t_interp, tag):
    """T is a stable model of P with T's input facts: T |= P and no H < T (equal on inputs) with <H,T> |= P.
    Returns a z3 formula containing one universally quantified Boolean per non-input atom."""
    dom = ctx.finite_domain
    model = satisfies(ctx, program, t_interp)
    hb = {}
    h_interp = {}
    for (n, a) in preds:
        if (n, a) in inputs:
            h_interp[(n, a)] = t_interp[(n, a)]
        else:
            hb[(n, a)] = fresh_bools('H' + tag, n, a, dom)
            h_interp[(n, a)] = bool_extent(dom, a, hb[(n, a)])
    sub, differ = [], []
    for (n, a) in preds:
        if (n, a) in inputs:
            continue
        for idx in atoms_over(dom, a):
            args = [dom[i] for i in idx]
            ph = hb[(n, a)][idx]
            pt = t_interp[(n, a)](*args)
            # the Boolean only matters where it is not shadowed by an aliasing tuple: read the extent, not the Boolean
            ph = h_interp[(n, a)](*args)
            sub.append(z3.Implies(ph, pt))
            differ.append(z3.And(pt, z3.Not(ph)))
    smaller = z3.And(*(sub + [z3.Or(*differ) if differ else z3.BoolVal(False)]))
    reduct_model = ht_satisfies(ctx, program, h_interp, t_interp)
    hvars = [b for d in hb.values() for b in d.values()]
    minimal = z3.ForAll(hvars, z3.Not(z3.And(smaller, reduct_model))) if hvars else z3.BoolVal(True)
    return z3.And(model, minimal)
