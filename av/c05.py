"""C05 - gamma reduces here-and-there satisfaction to classical satisfaction."""
import itertools
import random

import z3

from . import bridge as bridge_mod
from . import driver
from . import cliagree
from .checks_common import generic_replay
from .fol import *
from .sem import Ctx, fol_preds, fol_size, free_vars
from .sexp import Q, render

PROPERTY = 'C05'
LEVEL = 'translation_validation'

X, Y = gvar('X'), gvar('Y')
ATOMS_FULL = [
    atom('p'), atom('q', X), atom('r', X, Y), cmp(X, '<', num(3)), cmp(ivar('X'), '=', Y),
    TRUE, FALSE, cmp(num(1), '<=', ivar('X'), '<', Y), atom('q', add(ivar('N'), num(1))),
    cmp(svar('S'), '!=', sym('a')),
]
ATOMS_SMALL = [atom('p'), atom('q', X), atom('r', X, Y), cmp(X, '<', num(3))]
QUANTS = [('forall', [var('X')]), ('exists', [var('X')]), ('forall', [var('X', 'i')]),
          ('exists', [var('X'), var('Y')]), ('forall', [var('S', 's'), var('X', 'i')])]
NAME_POOL = ['p', 'h', 't', 'hp', 'tp', 'thp', 'ht', 'hh', 'ttp', 'htp', 'tt']


def generate(tier, seed):
    rnd = random.Random(seed)
    d0 = list(ATOMS_FULL)
    d1 = list(unary_binary_quant(ATOMS_SMALL, ATOMS_SMALL, QUANTS))
    d1 += [neg(a) for a in ATOMS_FULL[4:]] + [(q, tuple(vs), a) for (q, vs) in QUANTS for a in ATOMS_FULL[4:]]
    s0 = ATOMS_SMALL[:3]
    d2 = [neg(c) for c in d1]
    d2 += [(q, tuple(vs), c) for (q, vs) in QUANTS for c in d1]
    for op in BIN:
        for c in d1:
            for a in s0:
                d2.append((op, c, a))
                d2.append((op, a, c))
    pairs = [(a, b) for a in d1 for b in d1]
    rnd.shuffle(pairs)
    npairs = 1500 if tier == 'quick' else 20000
    for (a, b) in pairs[:npairs]:
        d2.append((rnd.choice(BIN), a, b))
    # predicate-name pool: distinct copies clause
    names = []
    for n1, n2 in itertools.permutations(NAME_POOL, 2):
        names.append(imp(atom(n1), neg(atom(n2, X))))
        names.append(iff(neg(atom(n1, X)), atom(n2, X)))
        # the same arity on both: a copy name of one predicate is the original name of the other, in one subformula
        names.append(neg(conj(atom(n1), atom(n2))))
        names.append(imp(atom(n1, X), disj(atom(n2, X), neg(atom(n1, Y)))))
        names.append(forall([var('X')], rimp(atom(n1, X, X), neg(atom(n2, X, Y)))))
    names.append(conjoin([disj(atom(n), neg(atom(n, X))) for n in NAME_POOL]))
    # depth 3/4: the alternations the property names (implication / negation / quantifier)
    d3 = []
    core = [c for c in d2 if c[0] in ('imp', 'rimp', 'iff', 'not')]
    rnd.shuffle(core)
    n3 = 600 if tier == 'quick' else 12000
    for c in core[:n3]:
        k = rnd.randrange(5)
        if k == 0:
            d3.append(neg(c))
        elif k == 1:
            d3.append(forall([var('X')], imp(c, rnd.choice(d1))))
        elif k == 2:
            d3.append(imp(exists([var('Y')], c), rnd.choice(d1)))
        elif k == 3:
            d3.append(iff(c, neg(rnd.choice(d1))))
        else:
            d3.append(rimp(rnd.choice(d1), forall([var('Y')], c)))
    # a tiny atom set, exhaustively: every connective (incl. both quantifiers) over {p, q(X), X < 3, #false, #true}
    # to depth 2 (binary nodes of depth 2 with one atomic operand), every unary wrapper of those (depth 3, sampled in quick),
    # and left-nested implications / equivalences of depth 3
    t0 = [atom('p'), atom('q', X), cmp(X, '<', num(3)), FALSE, TRUE]
    un = [neg, lambda f: forall([var('X')], f), lambda f: exists([var('X')], f)]
    t1 = [u(a) for u in un for a in t0] + [(op, a, b) for op in BIN for a in t0 for b in t0]
    t2 = [u(c) for u in un for c in t1] + [(op, c, a) for op in BIN for c in t1 for a in t0[:4]] \
        + [(op, a, c) for op in BIN for c in t1 for a in t0[:4]]
    t3 = [u(c) for u in un for c in t2]
    nest = [(op1, (op2, c, a), b) for op1 in ('imp', 'rimp', 'iff') for op2 in ('imp', 'rimp', 'iff') for c in t1[:15] + t1[40:70]
            for a in t0[:2] for b in t0[:2]]
    rnd.shuffle(t3)
    rnd.shuffle(nest)
    tiny = t1 + t2 + t3[:1500 if tier == 'quick' else len(t3)] + nest[:400 if tier == 'quick' else len(nest)]
    items = []
    for fam, fs in (('depth0', d0), ('depth1', d1), ('depth2', d2), ('names', names), ('depth3+', d3), ('tiny-exhaustive', tiny)):
        for f in fs:
            items.append({'family': fam, 'formula': f})
    if tier == 'thorough':
        d4 = []
        for _ in range(6000):
            a, b, c = rnd.choice(d2), rnd.choice(d1), rnd.choice(d2)
            d4.append((rnd.choice(BIN), (rnd.choice(BIN), a, b), neg(c)))
        items += [{'family': 'depth4-seeded', 'formula': f} for f in d4]
    for f in (d1[::9] + d2[::300] + names[::20] + tiny[::150])[:80]:
        fv = sorted(free_vars(f))
        g = forall([var(n, {'g': 'g', 'i': 'i', 's': 's'}[s_]) for (n, s_) in fv], f) if fv else f
        items.append({'family': 'cli-agreement', 'formula': g, 'cli': True})
    return items


_COPY = {}


def copy_names(b, name, arity):
    k = (name, arity)
    if k not in _COPY:
        a = atom(name, *[gvar('X%d' % i) for i in range(arity)])
        h = b.call('here', a)[0]
        t = b.call('there', a)[0]
        _COPY[k] = (str(h[1]), str(t[1]))
    return _COPY[k]


def vc(f, g, copies, wrong_ref=None):
    """Negated obligation: exists H subset T, assignment: ht(F,h) != cl(gamma F)."""
    ctx = Ctx()
    table = {}
    for (name, arity), (hn, tn) in copies.items():
        table[(hn, arity)] = (name, arity, 'h')
        table[(tn, arity)] = (name, arity, 't')

    def predmap(name, arity, world):
        if (name, arity) in table:
            n, a, w = table[(name, arity)]
            return ctx.pred(n, a, w)
        return ctx.pred('unmapped:' + name, arity, '')
    lhs = ctx.ht(f, 'h') if wrong_ref is None else wrong_ref(ctx, f)
    rhs = ctx.cl(g, predmap=predmap)
    side = ctx.order_axioms() + ctx.subset_conditions(sorted(copies)) + ctx.symbol_facts()
    return ctx, side, lhs, rhs


def check_item(item):
    b = bridge_mod.get()
    f = item['formula']
    if item.get('cli'):
        r = cliagree.gamma(b, item['family'], render(f), f)
        return [r] if r else []
    req = ('gamma', f)
    g = b.call(*req)[0]
    preds = sorted(fol_preds(f))
    copies = {p: copy_names(b, *p) for p in preds}
    base = {'family': item['family'], 'key': render(f), 'input': text(f), 'output': text(g),
            'obligation': 'forall H<=T, assignment: ht(F,h) <-> cl(gamma(F)) with p_h:=here-copy, p_t:=there-copy',
            'nontrivial': depth(f) >= 1, 'twin': item.get('twin', False)}
    # distinct copies (concrete)
    seen = {}
    for p, (hn, tn) in copies.items():
        for w, n in (('h', hn), ('t', tn)):
            kk = (n, p[1])
            if kk in seen and seen[kk] != (p, w):
                r = dict(base)
                r.update(verdict='violation-concrete', signature='copy-collision',
                         detail='copies collide: %s and %s both named %s/%d' % (seen[kk], (p, w), n, p[1]),
                         replay={'request': render(req), 'expected': render((g,))})
                return [r]
            seen[kk] = (p, w)
    wrong = item.get('wrong_ref')
    ctx, side, lhs, rhs = vc(f, g, copies, WRONG[wrong] if wrong else None)
    res = driver.solve(side + [lhs != rhs], item.get('timeout_ms', 10000))
    r = dict(base)
    r.update(verdict=res['verdict'], ms=res['ms'], vc_size=fol_size(f) + fol_size(g))
    if res['verdict'] == 'sat':
        r['signature'] = 'gamma:' + f[0]
        r['detail'] = 'countermodel: ' + driver.model_text(res['model'], 1500)
        r['replay'] = {'request': render(req), 'expected': render((g,)), 'smt2': res['smt2']}
    elif res['verdict'] == 'unknown':
        r['detail'] = res.get('reason')
    return [r]


# deliberately wrong references: must be *detected* (vacuity twins)
def _wrong_not_here(ctx, f):
    """`not` evaluated in the current world instead of the there-world."""
    def go(f, w):
        tag = f[0]
        if tag == 'not':
            return z3.Not(go(f[1], w))
        if tag in ('and', 'or'):
            a, b2 = go(f[1], w), go(f[2], w)
            return z3.And(a, b2) if tag == 'and' else z3.Or(a, b2)
        if tag == 'imp':
            if w == 't':
                return z3.Implies(go(f[1], 't'), go(f[2], 't'))
            return z3.And(z3.Implies(go(f[1], 'h'), go(f[2], 'h')), z3.Implies(go(f[1], 't'), go(f[2], 't')))
        return ctx.ht(f, w)
    return go(f, 'h')


def _wrong_imp_local(ctx, f):
    """implication evaluated only in the here-world."""
    def go(f):
        if f[0] == 'imp':
            return z3.Implies(ctx.ht(f[1], 'h'), ctx.ht(f[2], 'h'))
        return ctx.ht(f, 'h')
    return go(f)


WRONG = {'not-here': _wrong_not_here, 'imp-local': _wrong_imp_local}
TWINS_EXPECTED = 3


def twins(tier, seed):
    return [
        {'family': 'twin', 'formula': neg(atom('p')), 'wrong_ref': 'not-here'},
        {'family': 'twin', 'formula': imp(atom('q', X), atom('p')), 'wrong_ref': 'imp-local'},
        {'family': 'twin', 'formula': imp(neg(atom('q', X)), atom('p')), 'wrong_ref': 'not-here'},
    ]


def replay(r):
    return generic_replay(r)


def describe(tier):
    return {
        'rule': 'CLI agreement: 80 closed formulas through `anthem translate --with gamma` must print/save byte for byte what the library call returns; every formula over 5 atoms (p, q(X), X<3, #false, #true) and all connectives/quantifiers to depth 2, their unary wrappers and left-nested implications/equivalences at depth 3; same-arity pairs from a pool of names that are each other\'s here/there copies; formulas enumerated bounded-exhaustively (depth<=2 over the listed atoms/connectives/quantifier '
                'blocks, plus seeded depth 3-4 and a predicate-name pool); one obligation per formula; distinct by '
                'S-expression of the input; non-trivial = contains at least one connective or quantifier',
        'functions': ['translating::classical_reduction::gamma::{Gamma for Formula, Here, There, prepend_predicate}',
                      'convenience::apply::Apply for Formula'],
        'bounds': 'connective depth <=2 exhaustive over 10 atoms (depth-2 binary nodes: one child from the 3-atom pool '
                  'exhaustively, both children depth-1 seeded), depth 3 (quick) / 3-4 (thorough) seeded; predicate '
                  'arity <=2; integers unbounded; interpretations arbitrary (solver-quantified)',
        'outside': 'formulas deeper than the bounds; obligations the solver leaves unknown',
        'assumptions': ['reference HT semantics of av/sem.py (DESIGN 4.2)',
                        'symbols form an arbitrary total order (uninterpreted sort), integers are z3 Int',
                        'z3 5.1.0 verdicts; counterexamples re-decided by z3 4.8.12 and cvc5'],
        'trusted_base': ['av/sem.py ht()/cl()', 'z3'],
    }
