"""av: encoder/driver for solver-based checking of potassco/anthem (see /verif/DESIGN.md)."""
