"""Driver: worker pool, solver calls, replay, known findings, evidence, exit codes."""
import hashlib
import json
import multiprocessing as mp
import os
import random
import subprocess
import sys
import time
import traceback

import z3

from . import bridge as bridge_mod

VERIF = bridge_mod.VERIF
OUT = os.path.join(VERIF, 'out')
EVIDENCE = os.environ.get('VERIF_EVIDENCE_DIR') or os.path.join(VERIF, 'evidence')
KNOWN = os.path.join(VERIF, 'known_findings.json')

NWORKERS = int(os.environ.get('VERIF_WORKERS', '16'))


# ---------------------------------------------------------------- solving

_POISONED = False


def solve(assertions, timeout_ms, want_smt2=False):
    """Decide satisfiability of the conjunction. Returns dict(verdict, ms, model, smt2).
    Any solver exception (memory limit, internal error) is an inconclusive answer; the worker is then recycled."""
    global _POISONED
    t0 = time.time()
    try:
        s = z3.Solver()
        s.set('timeout', int(timeout_ms))
        for a in assertions:
            s.add(a)
        r = s.check()
        ms = int((time.time() - t0) * 1000)
        out = {'verdict': str(r), 'ms': ms, 'model': None, 'smt2': None, 'reason': None}
        if r == z3.sat:
            out['model'] = s.model()
        elif r == z3.unknown:
            out['reason'] = s.reason_unknown()
        if want_smt2 or r == z3.sat:
            out['smt2'] = '(set-logic ALL)\n' + s.to_smt2()
        return out
    except (z3.Z3Exception, MemoryError) as e:  # solver error = inconclusive
        _POISONED = True
        return {'verdict': 'unknown', 'ms': int((time.time() - t0) * 1000), 'model': None,
                'reason': 'solver exception: %s' % str(e)[:200], 'smt2': None}


def solve_ladder(build, timeout_ms):
    """build(ctx_kwargs) -> list of assertions. First the exact semantics; if z3 answers `unknown`, retry with the
    order relations abstracted to uninterpreted predicates (sound for `unsat` only)."""
    res = solve(build({}), timeout_ms)
    res['ladder'] = 'exact'
    if res['verdict'] == 'unknown':
        for kw in ({'abstract_order': True}, {'abstract_order': True, 'abstract_mul': True}):
            res2 = solve(build(kw), timeout_ms)
            res['ms'] += res2['ms']
            if res2['verdict'] == 'unsat':
                res2['ladder'] = '+'.join(sorted(kw))
                res2['ms'] = res['ms']
                return res2
    return res


def solve_equiv(build, timeout_ms, ladder=({}, {'abstract_order': True})):
    """build(ctx_kwargs) -> (side_conditions, [(lhs, rhs), ...]). Decides  side |= lhs <-> rhs  for every pair by one
    query per pair and direction (lhs & ~rhs, ~lhs & rhs): small queries are decided far more often than one big
    disjunction. Verdict: sat as soon as one query is sat (with that model), unknown if any query stays unknown
    after the ladder, else unsat."""
    total = 0
    used = set()
    unknown = None
    nq = 0
    side0, pairs0 = build(ladder[0])
    for idx in range(len(pairs0)):
        for direction in (0, 1):
            verdict = None
            for kw in ladder:
                if kw is ladder[0]:
                    side, pairs = side0, pairs0
                else:
                    side, pairs = build(kw)
                lhs, rhs = pairs[idx]
                goal = z3.And(lhs, z3.Not(rhs)) if direction == 0 else z3.And(z3.Not(lhs), rhs)
                res = solve(side + [goal], timeout_ms)
                nq += 1
                total += res['ms']
                if res['verdict'] == 'sat':
                    if 'abstract_order' in kw or 'abstract_mul' in kw:   # a model of an abstraction is not a counterexample
                        continue
                    res['ms'] = total
                    res['queries'] = nq
                    res['which'] = (idx, direction)
                    res['ladder'] = 'exact'
                    return res
                if res['verdict'] == 'unsat':
                    verdict = 'unsat'
                    used.add('exact' if not kw else '+'.join(sorted(kw)))
                    break
                unknown = res
            if verdict is None:
                unknown['ms'] = total
                unknown['queries'] = nq
                unknown['which'] = (idx, direction)
                unknown['verdict'] = 'unknown'
                return unknown
    return {'verdict': 'unsat', 'ms': total, 'model': None, 'smt2': None, 'reason': None, 'queries': nq,
            'ladder': '|'.join(sorted(used))}


def second_opinions(smt2, timeout_s=20):
    """Re-decide an exported VC with /usr/bin/z3 (4.8.12) and cvc5. '(error' => inconclusive."""
    res = {}
    os.makedirs(OUT, exist_ok=True)
    path = os.path.join(OUT, 'tmp_%d_%d.smt2' % (os.getpid(), random.getrandbits(32)))
    with open(path, 'w') as f:
        f.write(smt2)
    try:
        for name, cmd in (('z3-4.8.12', ['/usr/bin/z3', '-T:%d' % timeout_s, path]),
                          ('cvc5', ['cvc5', '--lang', 'smt2', '--tlimit=%d' % (timeout_s * 1000), path])):
            try:
                r = subprocess.run(cmd, stdout=subprocess.PIPE, stderr=subprocess.STDOUT, text=True,
                                   timeout=timeout_s + 10)
                txt = r.stdout.strip()
                first = txt.splitlines()[0].strip() if txt else ''
                if '(error' in txt or first not in ('sat', 'unsat', 'unknown'):
                    res[name] = 'inconclusive'
                else:
                    res[name] = first
            except (subprocess.TimeoutExpired, OSError):
                res[name] = 'inconclusive'
    finally:
        try:
            os.remove(path)
        except OSError:
            pass
    return res


def model_text(m, limit=4000):
    try:
        t = str(m)
    except Exception as e:  # pragma: no cover
        t = '<model not printable: %s>' % e
    return t[:limit]


# ---------------------------------------------------------------- worker pool

_CHECK = None


def _init(check_module_name):
    global _CHECK
    import importlib
    _CHECK = importlib.import_module(check_module_name)


def _work(item):
    try:
        return _CHECK.check_item(item)
    except bridge_mod.BridgeError as e:
        return [{'key': repr(item)[:200], 'verdict': 'machinery', 'detail': 'bridge error: %s' % e}]
    except (z3.Z3Exception, MemoryError) as e:
        global _POISONED
        _POISONED = True
        return [{'key': repr(item)[:200], 'verdict': 'unknown', 'detail': 'solver exception while building the VC: %s' % str(e)[:200],
                 'family': item.get('family'), 'input': item.get('program') or item.get('label') or repr(item)[:200],
                 'twin': item.get('twin', False)}]
    except Exception as e:
        return [{'key': repr(item)[:200], 'verdict': 'machinery',
                 'detail': 'exception: %s\n%s' % (e, traceback.format_exc()[-1500:])}]


HARD_TIMEOUT = int(os.environ.get('VERIF_HARD_TIMEOUT', '120'))     # seconds per item before the worker is killed
WORKER_MEM_MB = int(os.environ.get('VERIF_WORKER_MEM_MB', '3500'))


def _worker_main(check_module_name, conn):
    try:
        import resource
        lim = WORKER_MEM_MB * 1024 * 1024 * 2
        resource.setrlimit(resource.RLIMIT_AS, (lim, lim))
    except Exception:
        pass
    try:
        z3.set_param('memory_max_size', WORKER_MEM_MB)
    except Exception:
        pass
    _init(check_module_name)
    while True:
        try:
            msg = conn.recv()
        except EOFError:
            return
        if msg is None:
            return
        idx, item = msg
        try:
            res = _work(item)
        except MemoryError:
            res = [{'key': repr(item)[:200], 'verdict': 'unknown', 'detail': 'out of memory in worker',
                    'family': item.get('family'), 'input': item.get('program') or repr(item)[:200],
                    'twin': item.get('twin', False)}]
        conn.send((idx, res, _POISONED))
        if _POISONED:
            return


def run_pool(check_module_name, items, nworkers=None, hard_timeout=None):
    hard_timeout = hard_timeout or HARD_TIMEOUT
    """Own worker pool: one item at a time per worker, a hard wall-clock limit per item (the worker is killed and
    the item recorded as `unknown`), and an address-space limit per worker - a solver that ignores its timeout or
    explodes in memory can neither hang nor take down the run."""
    from multiprocessing.connection import wait
    nworkers = nworkers or NWORKERS
    if not items:
        return []
    nworkers = min(nworkers, len(items))
    ctx = mp.get_context('fork')
    workers = []

    def spawn():
        parent, child = ctx.Pipe()
        p = ctx.Process(target=_worker_main, args=(check_module_name, child), daemon=True)
        p.start()
        child.close()
        return {'proc': p, 'conn': parent, 'item': None, 'start': None}

    def lost(w, why):
        idx, item = w['item']
        return [{'key': 'lost:%d' % idx, 'verdict': 'unknown', 'detail': why, 'family': item.get('family'),
                 'input': item.get('program') or item.get('text') or item.get('label') or repr(item)[:300],
                 'twin': item.get('twin', False),
                 'ms': int((time.time() - w['start']) * 1000)}]

    for _ in range(nworkers):
        workers.append(spawn())
    out = []
    nxt = 0
    pending = 0
    total = len(items)
    while nxt < total or pending:
        for w in workers:
            if w['item'] is None and nxt < total:
                w['item'] = (nxt, items[nxt])
                w['start'] = time.time()
                w['conn'].send(w['item'])
                nxt += 1
                pending += 1
        busy = [w for w in workers if w['item'] is not None]
        ready = wait([w['conn'] for w in busy], timeout=1.0)
        now = time.time()
        for i, w in enumerate(workers):
            if w['item'] is None:
                continue
            if w['conn'] in ready:
                try:
                    idx, res, poisoned = w['conn'].recv()
                    for r_ in res:
                        r_['_item'] = idx
                    out.extend(res)
                    w['item'] = None
                    pending -= 1
                    if poisoned:      # the solver threw in this worker: recycle it
                        try:
                            w['proc'].join(timeout=2)
                            if w['proc'].is_alive():
                                w['proc'].kill()
                        except Exception:
                            pass
                        workers[i] = spawn()
                    continue
                except (EOFError, OSError):
                    out.extend(lost(w, 'worker died (memory limit?)'))
                    pending -= 1
                    try:
                        w['proc'].kill()
                    except Exception:
                        pass
                    workers[i] = spawn()
                    continue
            if now - w['start'] > hard_timeout:
                out.extend(lost(w, 'hard timeout after %ds: worker killed' % hard_timeout))
                pending -= 1
                try:
                    w['proc'].kill()
                    w['proc'].join(timeout=5)
                except Exception:
                    pass
                workers[i] = spawn()
    for w in workers:
        try:
            w['conn'].send(None)
        except Exception:
            pass
    for w in workers:
        w['proc'].join(timeout=2)
        if w['proc'].is_alive():
            w['proc'].kill()
    return out


# ---------------------------------------------------------------- known findings

def load_known(prop):
    try:
        with open(KNOWN) as f:
            data = json.load(f)
    except (OSError, ValueError):
        return []
    return [e for e in data.get('findings', []) if e.get('property') == prop and e.get('status') == 'open']


def match_known(known, result):
    """A finding matches a violation by its signature (role key) and, if given, its exact input."""
    for e in known:
        m = e.get('match', {})
        if 'signature' in m and m['signature'] != result.get('signature'):
            continue
        if 'input' in m and m['input'] != result.get('input'):
            continue
        if 'signature' not in m and 'input' not in m:
            continue
        return e
    return None


# ---------------------------------------------------------------- main entry for a check

def sha(text):
    return hashlib.sha256(text.encode()).hexdigest()[:16]


def write_replay(prop, result):
    d = os.path.join(OUT, 'replays', prop)
    os.makedirs(d, exist_ok=True)
    path = os.path.join(d, sha(json.dumps(result.get('replay', result), sort_keys=True, default=str)) + '.json')
    with open(path, 'w') as f:
        json.dump(result, f, indent=1, default=str)
    return path


def run_check(check, tier, seed):
    """Run one property check. `check` is a module with PROPERTY, LEVEL, generate(), check_item(),
    twins(), describe(). Returns the process exit code."""
    prop = check.PROPERTY
    t0 = time.time()
    os.makedirs(OUT, exist_ok=True)
    os.makedirs(EVIDENCE, exist_ok=True)
    bridge_mod.build()
    items = check.generate(tier, seed)
    twins = check.twins(tier, seed)
    for t in twins:
        t['twin'] = True
    all_items = items + twins
    results = run_pool(check.__name__, all_items, hard_timeout=getattr(check, 'HARD_TIMEOUT', None))
    # second pass: items with an `unknown` solver answer are re-run once with a larger per-query timeout (2x in the
    # quick tier, 4x in the thorough tier; VERIF_RETRY_FACTOR overrides)
    # (solver timeouts depend on machine load); their earlier results are replaced
    retry_idx = sorted(set(r['_item'] for r in results if r.get('verdict') == 'unknown' and '_item' in r
                           and not all_items[r['_item']].get('twin') and not all_items[r['_item']].get('no_retry')))
    if len(retry_idx) > int(os.environ.get('VERIF_MAX_RETRY', '60')):
        retry_idx = retry_idx[:int(os.environ.get('VERIF_MAX_RETRY', '60'))]
    retried = 0
    if retry_idx and os.environ.get('VERIF_NO_RETRY') is None:
        base_to = getattr(check, 'DEFAULT_TIMEOUT_MS', 5000)
        factor = int(os.environ.get('VERIF_RETRY_FACTOR', '2' if tier == 'quick' else '4'))
        again = []
        for i in retry_idx:
            it = dict(all_items[i])
            it['timeout_ms'] = factor * int(it.get('timeout_ms', base_to))
            again.append(it)
        res2 = run_pool(check.__name__, again, nworkers=max(2, NWORKERS // 2), hard_timeout=2 * (getattr(check, 'HARD_TIMEOUT', None) or HARD_TIMEOUT))
        keep = [r for r in results if r.get('_item') not in set(retry_idx)]
        results = keep + res2
        retried = len(again)

    twin_results = [r for r in results if r.get('twin')]
    results = [r for r in results if not r.get('twin')]

    machinery = [r for r in results + twin_results if r.get('verdict') == 'machinery']
    # vacuity twins must come back sat (or as the concrete failure they were built to be)
    twin_bad = [r for r in twin_results if r.get('verdict') not in ('sat', 'violation-concrete')]
    n_twins_expected = getattr(check, 'TWINS_EXPECTED', None)

    known = load_known(prop)
    violations, known_hits = [], {}
    nonrepro = []
    unreplayed = 0
    MAX_REPLAY = int(os.environ.get('VERIF_MAX_REPLAY', '12'))
    cands = [r for r in results if r.get('verdict') in ('sat', 'violation-concrete')]
    cands.sort(key=lambda r: (r.get('vc_size') or 0, r.get('key') or ''))
    per_sig = {}
    for r in cands:
        e = match_known(known, r)
        bucket = ('known', e['id']) if e is not None else ('new', None)
        budget = 2 if e is not None else MAX_REPLAY
        sig = (bucket, r.get('signature'))
        if per_sig.get(bucket, 0) >= budget or per_sig.get(sig, 0) >= 3:
            # not replayed: counted, not reported individually
            unreplayed += 1
            if e is not None:
                known_hits.setdefault(e['id'], (e, []))[1].append(r)
            continue
        per_sig[bucket] = per_sig.get(bucket, 0) + 1
        per_sig[sig] = per_sig.get(sig, 0) + 1
        ok, why = check.replay(r)   # replay before reporting
        r['replay_outcome'] = why
        if not ok:
            nonrepro.append(r)
            continue
        if e is not None:
            known_hits.setdefault(e['id'], (e, []))[1].append(r)
        else:
            violations.append(r)

    if os.environ.get('VERIF_DUMP'):
        with open(os.path.join(OUT, prop + '_dump.jsonl'), 'w') as df:
            for r in results:
                if r.get('verdict') not in ('unsat', 'held-concrete'):
                    df.write(json.dumps({k: v for k, v in r.items() if k != 'replay'}, default=str) + '\n')
    counts = {}
    for r in results:
        counts[r.get('verdict')] = counts.get(r.get('verdict'), 0) + 1
    solver_ms = sum(int(r.get('ms', 0) or 0) for r in results + twin_results)
    distinct = set()
    for r in results:
        if r.get('nontrivial'):
            distinct.add(r.get('key'))

    wall = time.time() - t0
    desc = check.describe(tier)
    samples = []
    seen_fam = set()
    for r in results:
        fam = (r.get('family'), r.get('verdict'))
        if fam in seen_fam or len(samples) >= 12:
            continue
        seen_fam.add(fam)
        samples.append({k: r.get(k) for k in ('family', 'input', 'output', 'obligation', 'verdict', 'ms', 'vc_size')
                        if r.get(k) is not None})
    coverage = {
        'programs': len(set(r.get('input_key', r.get('key')) for r in results)),
        'disagreements_checked': counts.get('sat', 0) + counts.get('violation-concrete', 0),
        'samples': samples,
        'evaluations': len(results),
        'distinct_nontrivial': len(distinct),
        'rule': desc['rule'],
        'obligations': len(results),
        'discharged': counts.get('unsat', 0) + counts.get('held-concrete', 0),
        'unsat': counts.get('unsat', 0),
        'sat': counts.get('sat', 0),
        'unknown': counts.get('unknown', 0),
        'undecided_inputs': [str(r.get('input'))[:240] for r in results if r.get('verdict') == 'unknown'][:40],
        'held_concrete': counts.get('held-concrete', 0),
        'violation_concrete': counts.get('violation-concrete', 0),
        'solver_ms_total': solver_ms,
        'parse_cross_checked': sum(1 for r in results if r.get('parse_cross_checked')),
        'solver_queries': sum(int(r.get('queries') or (1 if r.get('verdict') in ('unsat', 'sat', 'unknown') else 0)) for r in results),
        'functions_encoded': desc['functions'],
        'bounds': desc['bounds'],
        'outside_claim': desc['outside'],
        'vacuity_twins': {'run': len(twin_results), 'came_back_sat': len(twin_results) - len(twin_bad)},
        'known_findings_hit': {k: len(v[1]) for k, v in known_hits.items()},
        'non_reproducing': len(nonrepro),
        'counterexamples_not_replayed': unreplayed,
        'machinery_failures': len(machinery),
        'items_retried_with_longer_timeout': retried,
        'trusted_base': desc.get('trusted_base', []),
        'checker_cmd': './check %s --tier %s' % (prop, tier),
        'explanation': desc.get('explanation', ''),
        'exhaustive': False,
        'families': desc.get('families', {}),
    }
    fam_counts = {}
    for r in results:
        fam_counts[r.get('family')] = fam_counts.get(r.get('family'), 0) + 1
    coverage['per_family'] = fam_counts
    evidence = {
        'property_id': prop,
        'tier': tier,
        'seed': seed,
        'level': check.LEVEL,
        'coverage': coverage,
        'assumptions': desc['assumptions'],
        'wall_s': round(wall, 2),
        'violations': len(violations),
    }
    with open(os.path.join(EVIDENCE, prop + '.json'), 'w') as f:
        json.dump(evidence, f, indent=1, default=str)

    for eid, (e, rs) in sorted(known_hits.items()):
        print('KNOWN-FINDING: property=%s %s (%d matching obligations, e.g. %s)' % (
            prop, e['what'], len(rs), (rs[0].get('input') or '')[:120].replace('\n', ' ')))

    code = 0
    if violations:
        for r in violations:
            path = write_replay(prop, r)
            print('VIOLATION property=%s replay=%s' % (prop, path))
            print('  input: %s' % (r.get('input') or '')[:300].replace('\n', ' '))
            print('  %s' % (r.get('detail') or '')[:500].replace('\n', ' '))
        if unreplayed:
            print('  ... (%d further counterexamples counted but not replayed individually)' % unreplayed)
        code = 1
    print('[%s %s] inputs=%d obligations=%d unsat=%d sat=%d unknown=%d concrete-held=%d violations=%d known=%d '
          'nonrepro=%d machinery=%d twins=%d/%d wall=%.1fs solver=%.1fs' % (
              prop, tier, coverage['programs'], len(results), counts.get('unsat', 0), counts.get('sat', 0),
              counts.get('unknown', 0), counts.get('held-concrete', 0), len(violations),
              sum(len(v[1]) for v in known_hits.values()), len(nonrepro), len(machinery),
              len(twin_results) - len(twin_bad), len(twin_results), wall, solver_ms / 1000.0))
    if code == 0:
        if machinery:
            print('MACHINERY-FAILURE: %d obligations failed in the harness, e.g. %s' % (
                len(machinery), machinery[0].get('detail', '')[:600]))
            code = 2
        elif twin_bad or (n_twins_expected is not None and len(twin_results) < n_twins_expected):
            print('MACHINERY-FAILURE: vacuity twin(s) did not come back sat: %s' % (
                [(r.get('input'), r.get('verdict')) for r in twin_bad][:5]))
            code = 2
        elif nonrepro:
            print('MACHINERY-FAILURE: %d counterexample(s) did not reproduce on replay, e.g. %s / %s' % (
                len(nonrepro), (nonrepro[0].get('input') or '')[:200], nonrepro[0].get('replay_outcome')))
            code = 2
        elif not results:
            print('MACHINERY-FAILURE: no obligations generated')
            code = 2
    return code
