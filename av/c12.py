"""C12 - axioms anthem adds on its own are true in every standard interpretation."""
import random
import re

import z3

from . import bridge as bridge_mod
from . import driver
from . import genprog
from . import tff
from .c02 import TASKS as EXT_TASKS, run_task
from .c03 import PROGRAMS, copy_names
from .checks_common import generic_replay
from .sem import Ctx, asp_preds
from .sexp import Q, render
from .tasks import *

PROPERTY = 'C12'
LEVEL = 'translation_validation'

SYMBOL_TASKS = [
    ('p(a, b).', 'p(a, b) :- not q(c).'),
    ('q :- p < p0, r.', 'q :- p < p0, r, not s(p1).'),
    ('p(b, a, c, ab, aa, a0, a_, aB).', 'p(b, a, c, ab, aa, a0, a_, aB) :- not q.'),
    ('p(z) :- q(a), z > a.', 'p(z) :- q(a).'),
    ('p(q) :- q. r(q0) :- not q.', 'p(q) :- q, r(q0).'),
    ('p(s, s_, s__s, s0) :- s.', 'p(s, s_, s__s, s0) :- s, not t.'),
    ('p(X) :- X = a, q(b).', 'p(a) :- q(b).'),
    ('p(only).', 'p(only) :- not q.'),
    ('p(1). q(2).', 'p(1) :- q(2).'),
    ('q :- hp < hp0, p.', 'q :- hp < hp0, p, not not p.'),
    ('q(tq, tq0, tq_) :- q.', 'q(tq, tq0, tq_) :- q, not r.'),
    # constants named like predicates of arity >= 1 (and like their here/there copies), next to constants extending the name
    ('r :- p(p), p1 < p.', 'r :- p(p).'),
    ('q(q, q0, q_, qA).', 'q(q, q0, q_, qA) :- not r(q, r, r1).'),
    ('r :- p(hp, tp), hp1 < hp, tp_ < tp.', 'r :- p(hp, tp).'),
    ('p(p, p) :- p. p :- p(p0, p__s).', 'p(p, p) :- p, not p(p0, p__s).'),
    ('q(X) :- p(X), hs >= X, hs0 != X. s :- p(hs).', 'q(X) :- p(X), X <= hs, X != hs0. s :- p(hs).'),
    # names whose numeric and lexicographic orders disagree, mixed case, digits in the middle
    ('p :- v2 < v10.', 'p.'), ('p(v2, v10, v1, v01, v9, v10a, c9, c10, a9, a1b, a10).', 'p(v2, v10, v1, v01, v9, v10a, c9, c10, a9, a1b, a10) :- not q.'),
    ('p(aB, ab, aA, a_b, a0b, aZ, az).', 'p(aB, ab, aA, a_b, a0b, aZ, az) :- not q.'),
    # constants that literally end in the renaming suffix, next to the propositional atom and/or the constant they could be mistaken for
    ('q :- x, hx__s < hx0.', 'q :- x, hx0 > hx__s.'), ('q :- x, hx__s < hx0, hx != hx__s.', 'q :- x, hx0 > hx__s, hx__s != hx.'),
    ('q(hx, hx__s, hx__s__s, hx_) :- x.', 'q(hx, hx__s, hx__s__s, hx_) :- x, not not x.'),
]
EXT_SYMBOL_TASKS = [
    ('renamed-symbol-order', 'program', 'q :- p < p0, p.', 'q :- p < p0, p, not r. r :- not p.', 'input: p/0. output: q/0.'),
    ('symbol-named-like-unary-predicate', 'program', 'r :- p(p), p1 < p.', 'r :- p(p).', 'input: p/1. output: r/0.'),
    ('symbol-named-like-private-binary-predicate', 'program', 'aux(aux, aux0) :- p(aux_). r :- aux(aux, auxA).',
     'r :- p(aux_), aux = aux, auxA = aux0.', 'input: p/1. output: r/0.'),
    ('renamed-symbol-in-every-comparison-position', 'program', 'p(X) :- q(X), r >= X. r :- q(r). p(X) :- q(X), r0 < r, r < X, X != r.',
     'p(X) :- q(X), X <= r. r :- q(r). p(X) :- q(X), r > r0, X > r, r != X.', 'input: q/1. output: p/1. output: r/0.'),
    ('renamed-symbol-clashing-atom-only-in-another-conjecture', 'spec', 'spec: forall X (q(X) <-> r(X) and X != p and X != p0).',
     'q(X) :- r(X), X != p, X != p0. p :- r(1).', 'input: r/1. output: q/1. output: p/0.'),
    ('renamed-symbol-clashing-atom-only-in-another-conjecture-2', 'program', 't(X) :- r(X), p0 < X, X < p1, X != p.',
     't(X) :- r(X), p0 < X, X < p1, p != X. p :- r(1).', 'input: r/1. output: t/1. output: p/0.'),
    ('literal-suffix-constants', 'program', 't(X) :- r(X), p__s < X, X < p0, X != p. p :- r(1).',
     't(X) :- r(X), X > p__s, p0 > X, p != X. p :- r(1).', 'input: r/1. output: t/1. output: p/0.'),
    ('renamed-symbol-between', 'program', 'q(p, p0, p_, pa) :- p.', 'q(p, p0, p_, pa) :- p, not r. r :- not p.', 'input: p/0. output: q/4.'),
]


OUTLINE_TASKS = [
    ('outline-symbols-only-in-lemmas', 'q(X) :- p(X), X != a.', 'q(X) :- p(X), a != X.', 'input: p/1. output: q/1.',
     'lemma(forward): forall X (q(X) -> X != a and (X = b0 or X != b0)). inductive-lemma: forall N$i (N$i >= 0 -> (q(N$i) -> N$i != b)). '
     'definition: forall X (dd(X) <-> p(X) and X = c_). lemma(backward): forall X (dd(X) -> X = c_ and cA != c_).'),
    ('outline-renamed-symbol-only-in-lemma', 'q :- p(X), X != a. r(X) :- p(X), not q.', 'q :- p(X), a != X. r(X) :- p(X), not q.',
     'input: p/1. output: r/1. output: q/0.',
     'lemma(forward): forall X (p(X) and X != q and q0 != X -> X != q or q). definition: forall X (dd(X) <-> p(X) and X = q). '
     'lemma(backward): forall X (dd(X) -> X = q and q != q_).'),
]


def generate(tier, seed):
    rnd = random.Random(seed)
    items = [{'family': 'preamble', 'kind': 'preamble', 'label': 'standard_interpretation.p'}]
    for (l, r) in SYMBOL_TASKS:
        items.append({'family': 'strong-symbols', 'kind': 'strong', 'left': l, 'right': r, 'label': '%s || %s' % (l, r)})
    pairs = [(a, b) for a in PROGRAMS for b in PROGRAMS if a != b]
    rnd.shuffle(pairs)
    for (l, r) in pairs[:30 if tier == 'quick' else 400]:
        items.append({'family': 'strong-corpus', 'kind': 'strong', 'left': l, 'right': r, 'label': '%s || %s' % (l, r)})
    for (l, r) in genprog.pairs(seed + 2, 25 if tier == 'quick' else 800, arithmetic=False):
        items.append({'family': 'strong-generated', 'kind': 'strong', 'left': l, 'right': r, 'label': '%s || %s' % (l, r)})
    for t in EXT_SYMBOL_TASKS + list(EXT_TASKS):
        items.append({'family': 'external-corpus', 'kind': 'external', 'task': t, 'label': t[0]})
    # tasks with proof outlines: the outline problems carry the same self-made axioms (symbols that occur only in a lemma,
    # only in a definition, or only in the conjecture of an outline problem)
    for (name, l, r, ug, po) in OUTLINE_TASKS:
        items.append({'family': 'external-outline', 'kind': 'external', 'task': (name, 'program', l, r, ug), 'outline': po, 'label': name})
    return items


def order_axiom_result(it, meaning, base, item, p, rq, rs):
    r = dict(base)
    r.update(key='%s#%s#%s' % (item['label'], p['name'], it['name']), input='%s [%s %s]' % (item['label'], p['name'], it['name']),
             output=render_ast(it['body']),
             obligation='the ordering axiom is true when every symbolic constant denotes its original name (lexicographic order)')

    def build(kw):
        ctx = Ctx(**kw)
        f = tff.Interp(ctx, meaning).formula(it['body'])
        for s in meaning.values():
            ctx.symbol(s[1])
        return ctx.order_axioms() + ctx.symbol_facts(), f
    try:
        res = valid(build)
    except tff.TffError as e:
        r.update(verdict='observation', detail='axiom not interpretable (C09): %s' % e)
        return r
    r.update(verdict=res['verdict'], ms=res['ms'])
    if res['verdict'] == 'sat':
        r.update(signature='symbol-order-axiom-false',
                 detail='%s is false in the standard order of the original symbol names (read as %s)' % (
                     render_ast(it['body']), meaning),
                 replay={'request': render(rq), 'expected': render(rs), 'smt2': res['smt2']})
    return r


def is_order_axiom(body, decl_symbols):
    if body[0] != 'atomf' or body[1][1] != 'p__less__' or len(body[1][2]) != 2:
        return False
    for a in body[1][2]:
        if a[1] != 'f__symbolic__' or len(a[2]) != 1 or a[2][0][2] or a[2][0][1] not in decl_symbols:
            return False
    return True


def is_transition_shape(f, table):
    """forall* (h-copy of p applied to variables -> t-copy of p applied to the same variables): no program rule yields this
    shape (gamma never puts an h-atom in the antecedent of an implication whose consequent is a t-atom)"""
    while f[0] == 'forall':
        f = f[2]
    if f[0] != 'imp' or f[1][0] != 'atom' or f[2][0] != 'atom':
        return False
    l, r = f[1], f[2]
    kl, kr = table.get((str(l[1]), len(l) - 2)), table.get((str(r[1]), len(r) - 2))
    return bool(kl and kr and kl[:2] == kr[:2] and kl[2] == 'h' and kr[2] == 't' and l[2:] == r[2:])


def valid(build, timeout=8000):
    """build(kw) -> (side, formula): decide side |= formula."""
    def b2(kw):
        side, f = build(kw)
        return side, [(f, z3.BoolVal(True))]
    return driver.solve_equiv(b2, timeout, ({}, {'abstract_order': True}))


def check_preamble(b, item):
    text_ = str(b.call('preamble')[0])
    out = []
    try:
        items = tff.parse_problem(text_)
    except tff.TffError as e:
        return [{'family': 'preamble', 'key': 'preamble', 'input': 'preamble', 'verdict': 'violation-concrete',
                 'signature': 'preamble-syntax', 'detail': str(e), 'replay': {'request': render(('preamble',)), 'expected': render((Q(text_),))}}]
    axioms = [it for it in items if it['role'] == 'axiom']
    wrong = item.get('wrong')
    for it in axioms:
        r = {'family': 'preamble', 'key': 'preamble#' + it['name'], 'input_key': 'preamble', 'input': it['name'],
             'obligation': 'the axiom holds in the standard interpretation (all integers, any total order of symbols)',
             'nontrivial': True, 'twin': item.get('twin', False)}

        def build(kw, it=it):
            ctx = Ctx(**kw)
            f = tff.Interp(ctx, {}).formula(it['body'])
            if wrong == 'negate':
                f = z3.Not(f)
            return ctx.order_axioms(), f
        res = valid(build)
        r.update(verdict=res['verdict'], ms=res['ms'])
        if res['verdict'] == 'sat':
            r.update(signature='preamble-axiom-false:' + it['name'],
                     detail='axiom %s is false in a standard interpretation: %s' % (it['name'], driver.model_text(res['model'], 600)),
                     replay={'request': render(('preamble',)), 'expected': render((Q(text_),)), 'smt2': res['smt2']})
        elif res['verdict'] == 'unknown':
            r['detail'] = res.get('reason')
        out.append(r)
    if item.get('twin'):
        return [r for r in out if r['verdict'] == 'sat'][:1] or out[:1]
    return out


def check_item(item):
    b = bridge_mod.get()
    if item['kind'] == 'preamble':
        return check_preamble(b, item)
    out = []
    if item['kind'] == 'strong':
        req = ('strong_task', Q(item['left']), Q(item['right']), Q('tau-star'), Q('universal'), Q('sequential'), Q('true'), Q('true'))
        resp = b.call(*req, timeout=120)
        payload = resp[0]
        lp = b.call('parse_program', Q(item['left']))[0]
        rp = b.call('parse_program', Q(item['right']))[0]
        preds = sorted(asp_preds(lp) | asp_preds(rp))
    else:
        req, resp = run_task(b, item['task'], 'universal', 'sequential', True, True, outline=item.get('outline', ''))
        if resp[0][:1] == ('refused',):
            return [{'family': item['family'], 'key': item['label'], 'input': item['label'], 'verdict': 'skipped'}]
        payload = resp[0]
        # the independent decomposition too: its problems contain fewer formulas (a clashing atom may be absent)
        req_i, resp_i = run_task(b, item['task'], 'universal', 'independent', False, True, outline=item.get('outline', ''))
        if resp_i[0][:1] != ('refused',):
            payload = tuple(payload) + tuple(('problem', Q('independent:' + str(q[1]))) + tuple(q[2:]) for q in resp_i[0])
        preds = []
    problems = parse_problems(payload)
    texts = (item['left'], item['right']) if item['kind'] == 'strong' else tuple(item['task'][2:5]) + (item.get('outline', ''),)
    names_in_task = input_names(*texts)
    seen_texts = set()
    for p in problems:
        rq, rs = (req_i, resp_i) if p['name'].startswith('independent:') else (req, resp)
        base = {'family': item['family'], 'input_key': item['label'], 'twin': item.get('twin', False), 'nontrivial': True}
        try:
            items = tff.parse_problem(p['text'])
        except tff.TffError as e:
            r = dict(base)
            r.update(key=item['label'] + '#' + p['name'] + '#syntax', input='%s [%s]' % (item['label'], p['name']),
                     verdict='observation', detail='problem text not readable (C09): %s' % e)
            out.append(r)
            continue
        aliases = symbol_aliases([p], texts)
        # selected by shape, not by formula name: constants declared at type `symbol`; axioms of the form
        # p__less__(f__symbolic__(c), f__symbolic__(d)) over such constants
        decl_symbols = [it['body'][1] for it in items if it['role'] == 'type' and it['body'][2] == 'symbol']
        order_ax = [it for it in items if it['role'] == 'axiom' and is_order_axiom(it['body'], decl_symbols)]
        key_part = (tuple(decl_symbols), tuple(render_ast(it['body']) for it in order_ax))
        # ---- (b) symbol order chain
        if key_part not in seen_texts:
            seen_texts.add(key_part)
            # what the declared constants stand for is read off the task text (tasks.symbol_readings); when more than one
            # reading is consistent (a constant literally written <name>__s next to a renamed <name>), the axioms must all be
            # true under one of them
            readings = symbol_readings(set(decl_symbols), names_in_task) or [{}]
            links = []
            results_by_reading = []
            for table in readings:
                meaning = {s: ('sym', table.get(s, s)) for s in decl_symbols}
                results_by_reading.append((meaning, [order_axiom_result(it, meaning, base, item, p, rq, rs) for it in order_ax]))
            results_by_reading.sort(key=lambda mr: sum(1 for r in mr[1] if r.get('verdict') == 'sat'))
            meaning, rs_ = results_by_reading[0]
            out.extend(rs_)
            for it in order_ax:
                b_ = it['body']
                a1, a2 = b_[1][2]
                links.append((a1[2][0][1], a2[2][0][1]))
            r = dict(base)
            r.update(key='%s#%s#chain' % (item['label'], p['name']), input='%s [%s chain]' % (item['label'], p['name']),
                     obligation='the ordering axioms (with transitivity) order every pair of declared symbolic constants, so any '
                                'two are provably distinct')
            # the links (each separately shown true above) must order every pair of declared constants, directly or through
            # transitivity (a preamble axiom): the transitive closure of the links is a strict total order on them
            reach = {s: set() for s in decl_symbols}
            for (a_, b2) in links:
                if a_ in reach:
                    reach[a_].add(b2)
            changed = True
            while changed:
                changed = False
                for s in decl_symbols:
                    new = set()
                    for t in reach[s]:
                        new |= reach.get(t, set())
                    if not new <= reach[s]:
                        reach[s] |= new
                        changed = True
            chain_ok = all((b2 in reach[a_]) != (a_ in reach[b2]) for i_, a_ in enumerate(decl_symbols) for b2 in decl_symbols[i_ + 1:])
            if len(decl_symbols) >= 2 and not chain_ok:
                r.update(verdict='violation-concrete', signature='symbol-order-chain',
                         detail='links %s do not chain through the symbols %s' % (links, decl_symbols),
                         replay={'request': render(rq), 'expected': render(rs)})
            else:
                r.update(verdict='held-concrete')
            out.append(r)
        # ---- (c) transition axioms
        if item['kind'] == 'strong' and p is problems[0]:
            copies = {pr: copy_names(b, *pr) for pr in preds}
            table = {}
            for (name, arity), (hn, tn) in copies.items():
                table[(hn, arity)] = (name, arity, 'h')
                table[(tn, arity)] = (name, arity, 't')
            trans = [f for f in p['formulas'] if f['role'] == 'axiom' and ('transition_axiom' in f['name'] or is_transition_shape(f['formula'], table))]
            for f in trans:
                r = dict(base)
                r.update(key='%s#%s' % (item['label'], f['name']), input='%s [%s]' % (item['label'], f['name']), output=f['tptp'],
                         obligation='forall H<=T: the transition axiom holds when p\'s h-copy is read as p in H and its t-copy as p in T')

                def build(kw, f=f):
                    ctx = AliasCtx(aliases, **kw)

                    def predmap(name, arity, world):
                        if (name, arity) in table:
                            n_, a_, w_ = table[(name, arity)]
                            return ctx.pred(n_, a_, w_)
                        return ctx.pred('unmapped:' + name, arity, '')
                    sub = [] if item.get('wrong') == 'no-subset' else ctx.subset_conditions(preds)
                    return ctx.order_axioms() + sub, ctx.cl(f['formula'], predmap=predmap)
                res = valid(build)
                r.update(verdict=res['verdict'], ms=res['ms'])
                if res['verdict'] == 'sat':
                    r.update(signature='transition-axiom-false', detail='%s is not valid for H<=T: %s' % (f['tptp'], driver.model_text(res['model'], 500)),
                             replay={'request': render(rq), 'expected': render(rs), 'smt2': res['smt2']})
                out.append(r)
            # coverage: one transition axiom per predicate (name/arity)
            r = dict(base)
            r.update(key='%s#transition-coverage' % item['label'], input='%s [transition coverage]' % item['label'],
                     obligation='there is a transition axiom for every predicate (name/arity) of either program')
            from .sem import fol_preds
            have = set()
            for f in trans:
                have |= fol_preds(f['formula'])
            missing = [pr for pr in preds if (copies[pr][0], pr[1]) not in have or (copies[pr][1], pr[1]) not in have]
            if missing:
                r.update(verdict='violation-concrete', signature='transition-axiom-missing',
                         detail='no transition axiom for %s' % missing, replay={'request': render(rq), 'expected': render(rs)})
            else:
                r.update(verdict='held-concrete')
            out.append(r)
    if item.get('twin'):
        return [r for r in out if r.get('verdict') == 'sat'][:1] or out[:1]
    return out


def render_ast(f):
    tag = f[0]
    if tag == 'atomf':
        return render_term(f[1])
    if tag == 'eq':
        return '%s = %s' % (render_term(f[1]), render_term(f[2]))
    if tag == 'not':
        return '~(%s)' % render_ast(f[1])
    if tag in ('and', 'or'):
        return '(' + (' & ' if tag == 'and' else ' | ').join(render_ast(x) for x in f[1:]) + ')'
    if tag in ('imp', 'rimp', 'iff'):
        return '(%s %s %s)' % (render_ast(f[1]), {'imp': '=>', 'rimp': '<=', 'iff': '<=>'}[tag], render_ast(f[2]))
    if tag in ('forall', 'exists'):
        return '%s[%s]: %s' % ('!' if tag == 'forall' else '?', ', '.join('%s: %s' % v for v in f[1]), render_ast(f[2]))
    return str(f)


def render_term(t):
    if t[0] == 'num':
        return str(t[1])
    if t[0] == 'var':
        return t[1]
    if not t[2]:
        return t[1]
    return '%s(%s)' % (t[1], ', '.join(render_term(a) for a in t[2]))


TWINS_EXPECTED = 2


def twins(tier, seed):
    return [{'family': 'twin', 'kind': 'preamble', 'label': 'twin-preamble', 'wrong': 'negate'},
            {'family': 'twin', 'kind': 'strong', 'left': 'p(X) :- q(X).', 'right': 'p(X) :- q(X), not r.', 'label': 'twin-transition',
             'wrong': 'no-subset'}]


def replay(r):
    return generic_replay(r)


def describe(tier):
    return {
        'rule': 'the 15 axioms of the preamble; grammar-generated strong tasks over a confusable name pool (av/genprog.py); tasks with constants named like predicates of any arity, like here/there copies, in every comparison position; the symbol_order axioms and chains of every problem of 9 strong tasks chosen for their '
                'symbols (prefix-related names, names around a renamed symbol, many symbols, a single symbol, none), of a seeded '
                'sample of the strong corpus and of the external corpus; the transition axioms of every strong task (validity and '
                'coverage); one obligation per axiom, chain and task',
        'functions': ['verifying/problem/standard_interpretation.p (Interpretation::Standard)', 'verifying::problem::Display for '
                      'Problem (symbol_order axioms)', 'verifying::problem::rename_conflicting_symbols',
                      'verifying::task::strong_equivalence::transition_axioms'],
        'bounds': 'the listed tasks; integers unbounded and symbols an arbitrary total order for the preamble (stronger than the '
                  'windows the property mentions); symbol order axioms are decided from the lexicographic order of the original names',
        'outside': 'tasks beyond the corpus; problems whose text the TFF reader cannot read are C09\'s subject and only logged here',
        'assumptions': ['av/tff.py standard interpretation of the preamble symbols', 'symbols renamed <name>__s denote <name>',
                        'code-point lexicographic order of symbol names', 'z3 verdicts'],
        'trusted_base': ['av/tff.py', 'av/sem.py', 'z3'],
    }
