"""Client for the Rust bridge (the real anthem code, rebuilt from /repo on every run)."""
import os
import select
import subprocess
import sys
import time

from .sexp import Q, parse, render

VERIF = os.path.dirname(os.path.dirname(os.path.abspath(__file__)))
REPO = os.environ.get('ANTHEM_REPO', '/repo')
BUILD = os.path.join(VERIF, '.build')
BRIDGE_BIN = os.path.join(BUILD, 'bridge', 'debug', 'anthem-bridge')
ANTHEM_BIN = os.path.join(BUILD, 'bridge', 'debug', 'anthem')


def _env():
    env = dict(os.environ)
    env['CARGO_NET_OFFLINE'] = 'true'
    env['CARGO_TARGET_DIR'] = os.path.join(BUILD, 'bridge')
    env['RUST_BACKTRACE'] = '0'
    return env


def build(verbose=True):
    """Rebuild bridge (and thus anthem with feature `verif`) from /repo's current working tree."""
    os.makedirs(BUILD, exist_ok=True)
    bdir = os.path.join(VERIF, 'bridge')
    # keep the lock file in step with the repository's
    try:
        with open(os.path.join(REPO, 'Cargo.lock')) as f:
            lock = f.read()
        lp = os.path.join(bdir, 'Cargo.lock')
        old = open(lp).read() if os.path.exists(lp) else None
        if old is None:
            open(lp, 'w').write(lock)
    except OSError:
        pass
    t0 = time.time()
    r = subprocess.run(['cargo', 'build', '--offline', '--quiet'], cwd=bdir, env=_env(),
                       stdout=subprocess.PIPE, stderr=subprocess.STDOUT, text=True)
    if r.returncode != 0:
        sys.stderr.write(r.stdout)
        raise RuntimeError('bridge build failed')
    if verbose:
        sys.stderr.write('[build] bridge built from %s in %.1fs\n' % (REPO, time.time() - t0))
    return BRIDGE_BIN


def build_cli(verbose=True):
    """Build the anthem CLI binary itself (no verif feature) for replay."""
    env = _env()
    env['CARGO_TARGET_DIR'] = os.path.join(BUILD, 'cli')
    t0 = time.time()
    r = subprocess.run(['cargo', 'build', '--offline', '--quiet', '--bin', 'anthem'], cwd=REPO, env=env,
                       stdout=subprocess.PIPE, stderr=subprocess.STDOUT, text=True)
    if r.returncode != 0:
        sys.stderr.write(r.stdout)
        raise RuntimeError('anthem CLI build failed')
    if verbose:
        sys.stderr.write('[build] anthem CLI built in %.1fs\n' % (time.time() - t0))
    return os.path.join(BUILD, 'cli', 'debug', 'anthem')


class BridgeError(Exception):
    pass


class BridgePanic(Exception):
    pass


class BridgeTimeout(Exception):
    pass


class Bridge:
    def __init__(self, binary=BRIDGE_BIN):
        self.binary = binary
        self.proc = None
        self.calls = 0

    def start(self):
        self.proc = subprocess.Popen([self.binary], stdin=subprocess.PIPE, stdout=subprocess.PIPE,
                                     stderr=subprocess.DEVNULL, text=True, bufsize=1, env=_env())

    def close(self):
        if self.proc is not None:
            try:
                self.proc.stdin.close()
                self.proc.wait(timeout=5)
            except Exception:
                self.proc.kill()
            self.proc = None

    def call(self, *req, timeout=None):
        """Send (op args...) and return the payload tuple of (ok ...)."""
        if self.proc is None or self.proc.poll() is not None:
            self.start()
        line = render(tuple(req))
        self.proc.stdin.write(line + '\n')
        self.proc.stdin.flush()
        if timeout is not None:
            ready, _, _ = select.select([self.proc.stdout], [], [], timeout)
            if not ready:
                self.proc.kill()
                self.proc = None
                raise BridgeTimeout('no answer within %ss: %s' % (timeout, line[:300]))
        resp = self.proc.stdout.readline()
        self.calls += 1
        if not resp:
            self.proc = None
            raise BridgeError('bridge died on request: %s' % line[:300])
        r = parse(resp)
        if r[0] == 'ok':
            return r[1:]
        if r[0] == 'panic':
            raise BridgePanic(str(r[1]))
        raise BridgeError(str(r[1]))


_bridge = None


def get():
    """Per-process bridge instance."""
    global _bridge
    if _bridge is None:
        _bridge = Bridge()
    return _bridge
