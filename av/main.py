import argparse
import importlib
import json
import os
import sys

from . import driver


def main():
    ap = argparse.ArgumentParser()
    ap.add_argument('property')
    ap.add_argument('--tier', default=os.environ.get('VERIF_TIER', 'quick'), choices=['quick', 'thorough'])
    ap.add_argument('--replay')
    a = ap.parse_args()
    seed = int(os.environ.get('VERIF_SEED', '0'))
    mod = importlib.import_module('av.' + a.property.lower())
    if a.replay:
        from . import bridge as bridge_mod
        bridge_mod.build()
        with open(a.replay) as f:
            r = json.load(f)
        ok, why = mod.replay(r)
        print('replay %s: %s (%s)' % (a.replay, 'REPRODUCED' if ok else 'not reproduced', why))
        print('input: %s' % r.get('input'))
        print('detail: %s' % (r.get('detail') or '')[:2000])
        sys.exit(1 if ok else 2)
    sys.exit(driver.run_check(mod, a.tier, seed))


if __name__ == '__main__':
    main()
