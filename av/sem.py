"""Reference semantics (the trusted base, DESIGN.md section 4) as z3 terms.

Standard domain G = inf | int(Int) | sym(Sym) | sup with its total order; Sym is an
uninterpreted sort carrying an (axiomatised) total order, so an `unsat` verdict holds
for *every* totally ordered set of symbols, in particular the lexicographically
ordered identifiers. Integers are unbounded (z3 Int).

 * cl(F): classical truth of a target-language formula
 * ht(F, w): here-and-there truth at world w in {'h','t'}
 * rule_ref(rule, w): reference mini-gringo semantics of a rule (section 4.3)
"""
import z3

from .sexp import Q


class Ctx:
    """One verification condition's worth of z3 declarations."""

    def __init__(self, abstract_order=False, relativize_int=False, abstract_mul=False):
        # abstract_order: comparisons other than =/!= become uninterpreted predicates on G. Validity under
        # the abstraction implies validity under the real order (used only to turn `unknown` into `unsat`).
        self.abstract_order = abstract_order
        # abstract_mul: integer multiplication becomes an uninterpreted function (sound for `unsat` only)
        self.abstract_mul = abstract_mul
        # relativize_int: an integer-sorted bound variable is a G-sorted solver variable x guarded by is_int(x) and
        # read through ival(x) (an equivalent reading that lines quantifiers of mixed sorts up for the solver)
        self.relativize_int = relativize_int
        self.finite_domain = None   # list of G terms: quantifiers over G expand over it (finite-structure checks)
        self.pred_override = {}     # (name, arity, world) -> callable, e.g. an extent parametrised by Booleans
        self.placeholders = {}      # symbol name -> sort ('i'|'g'|'s'): user-guide placeholders inside programs
        self.twin = None   # deliberately wrong reference variants, used only by vacuity twins
        self.G = None
        self._mk_sorts()
        self.preds = {}       # (name, arity, world) -> FuncDecl
        self.consts = {}      # (kind, name, sort) -> const
        self.syms = {}        # symbol name -> Sym const
        self.numerals = {}    # sentinel value -> Int const (symbolic numerals)
        self.sentinels = set()
        self.side = []        # side conditions collected (symbol order facts etc.)
        self.fresh = 0

    # ------------------------------------------------------------ sorts
    def _mk_sorts(self):
        self.Sym = z3.DeclareSort('Sym')
        G = z3.Datatype('G')
        G.declare('inf')
        G.declare('int', ('ival', z3.IntSort()))
        G.declare('sym', ('sval', self.Sym))
        G.declare('sup')
        self.G = G.create()
        self.sle = z3.Function('sle', self.Sym, self.Sym, z3.BoolSort())

    def order_axioms(self):
        a, b, c = z3.Consts('sa sb sc', self.Sym)
        sle = self.sle
        return [
            z3.ForAll([a], sle(a, a)),
            z3.ForAll([a, b], z3.Implies(z3.And(sle(a, b), sle(b, a)), a == b)),
            z3.ForAll([a, b, c], z3.Implies(z3.And(sle(a, b), sle(b, c)), sle(a, c))),
            z3.ForAll([a, b], z3.Or(sle(a, b), sle(b, a))),
        ]

    def sort_of(self, s):
        return {'g': self.G, 'i': z3.IntSort(), 's': self.Sym}[s]

    # ------------------------------------------------------------ declarations
    def pred(self, name, arity, world=''):
        k = (str(name), arity, world)
        if k in self.pred_override:
            return self.pred_override[k]
        if k not in self.preds:
            self.preds[k] = z3.Function('%s/%d%s' % (name, arity, '@' + world if world else ''),
                                        *([self.G] * arity + [z3.BoolSort()]))
        return self.preds[k]

    def const(self, kind, name, sort):
        k = (kind, str(name), sort)
        if k not in self.consts:
            self.consts[k] = z3.Const('%s:%s$%s' % (kind, name, sort), self.sort_of(sort))
        return self.consts[k]

    def symbol(self, name):
        name = str(name)
        if name not in self.syms:
            self.syms[name] = z3.Const('sym:%s' % name, self.Sym)
        return self.syms[name]

    def symbol_facts(self):
        """Order facts between the named symbols (code-point lexicographic order)."""
        names = sorted(self.syms)
        facts = []
        for a, b in zip(names, names[1:]):
            facts.append(z3.And(self.sle(self.syms[a], self.syms[b]), self.syms[a] != self.syms[b]))
        return facts

    def numeral(self, n):
        n = int(n)
        if n in self.sentinels:
            if n not in self.numerals:
                self.numerals[n] = z3.Int('num:%d' % n)
            return self.numerals[n]
        return z3.IntVal(n)

    def fresh_const(self, prefix, sort):
        self.fresh += 1
        return z3.Const('%s!%d' % (prefix, self.fresh), sort)

    # ------------------------------------------------------------ order on G
    def rank(self, x):
        G = self.G
        return z3.If(G.is_inf(x), 0, z3.If(G.is_int(x), 1, z3.If(G.is_sym(x), 2, 3)))

    def leq(self, x, y):
        G = self.G
        return z3.Or(
            self.rank(x) < self.rank(y),
            z3.And(G.is_int(x), G.is_int(y), G.ival(x) <= G.ival(y)),
            z3.And(G.is_sym(x), G.is_sym(y), self.sle(G.sval(x), G.sval(y))),
            z3.And(G.is_inf(x), G.is_inf(y)),
            z3.And(G.is_sup(x), G.is_sup(y)),
        )

    def rel(self, r, x, y):
        """x r y for G-sorted x, y."""
        r = str(r)
        if r == '=':
            return x == y
        if r == '!=':
            return x != y
        if self.abstract_order:
            return z3.Function('absrel' + r, self.G, self.G, z3.BoolSort())(x, y)
        if r == '<=':
            return self.leq(x, y)
        if r == '>=':
            return self.leq(y, x)
        if r == '<':
            return z3.And(self.leq(x, y), x != y)
        if r == '>':
            return z3.And(self.leq(y, x), x != y)
        raise ValueError(r)

    # ------------------------------------------------------------ fol terms
    def iterm(self, t, env):
        tag = t[0]
        if tag == 'num':
            return self.numeral(t[1])
        if tag == 'ifc':
            return self.const('fc', t[1], 'i')
        if tag == 'ivar':
            k = (str(t[1]), 'i')
            return env[k] if k in env else self.const('var', t[1], 'i')
        if tag == 'neg':
            return -self.iterm(t[1], env)
        if tag == 'add':
            return self.iterm(t[1], env) + self.iterm(t[2], env)
        if tag == 'sub':
            return self.iterm(t[1], env) - self.iterm(t[2], env)
        if tag == 'mul':
            if self.abstract_mul:
                return z3.Function('absmul', z3.IntSort(), z3.IntSort(), z3.IntSort())(self.iterm(t[1], env), self.iterm(t[2], env))
            return self.iterm(t[1], env) * self.iterm(t[2], env)
        raise ValueError('integer term %r' % (t,))

    def sterm(self, t, env):
        tag = t[0]
        if tag == 'sym':
            return self.symbol(t[1])
        if tag == 'sfc':
            return self.const('fc', t[1], 's')
        if tag == 'svar':
            k = (str(t[1]), 's')
            return env[k] if k in env else self.const('var', t[1], 's')
        raise ValueError('symbolic term %r' % (t,))

    def gterm(self, t, env):
        tag = t[0]
        G = self.G
        if tag == 'inf':
            return G.inf
        if tag == 'sup':
            return G.sup
        if tag == 'gfc':
            return self.const('fc', t[1], 'g')
        if tag == 'gvar':
            k = (str(t[1]), 'g')
            return env[k] if k in env else self.const('var', t[1], 'g')
        if tag in ('sym', 'sfc', 'svar'):
            return G.sym(self.sterm(t, env))
        return G.int(self.iterm(t, env))

    @staticmethod
    def term_kind(t):
        tag = t[0]
        if tag in ('inf', 'sup', 'gfc', 'gvar'):
            return 'g'
        if tag in ('sym', 'sfc', 'svar'):
            return 's'
        return 'i'

    def compare(self, r, a, b, env):
        ka, kb = self.term_kind(a), self.term_kind(b)
        r = str(r)
        if self.abstract_order and r not in ('=', '!='):
            return self.rel(r, self.gterm(a, env), self.gterm(b, env))
        if ka == 'i' and kb == 'i':
            x, y = self.iterm(a, env), self.iterm(b, env)
            return {'=': x == y, '!=': x != y, '<': x < y, '<=': x <= y, '>': x > y, '>=': x >= y}[r]
        if ka == 's' and kb == 's':
            x, y = self.sterm(a, env), self.sterm(b, env)
            sle = self.sle
            return {'=': x == y, '!=': x != y, '<=': sle(x, y), '>=': sle(y, x),
                    '<': z3.And(sle(x, y), x != y), '>': z3.And(sle(y, x), x != y)}[r]
        return self.rel(r, self.gterm(a, env), self.gterm(b, env))

    # ------------------------------------------------------------ fol formulas
    def _atomic(self, f, env, world, predmap):
        tag = f[0]
        if tag == 'true':
            return z3.BoolVal(True)
        if tag == 'false':
            return z3.BoolVal(False)
        if tag == 'atom':
            name, args = f[1], f[2:]
            if predmap is not None:
                p = predmap(str(name), len(args), world)
            else:
                p = self.pred(name, len(args), world)
            zs = [self.gterm(a, env) for a in args]
            return p(*zs) if zs else p()
        if tag == 'cmp':
            links = []
            lhs = f[1]
            i = 2
            while i < len(f):
                links.append(self.compare(f[i], lhs, f[i + 1], env))
                lhs = f[i + 1]
                i += 2
            return z3.And(*links) if len(links) != 1 else links[0]
        return None

    one_point = True
    _uniq = 0

    def _pull(self, f):
        """exists Z (exists I (phi) and psi)  ==>  exists Z I' (phi' and psi), and
        forall X ((exists I (phi) and chi) -> psi)  ==>  forall X I' ((phi' and chi) -> psi), with I' globally fresh.
        Both are intuitionistically valid prenex laws (so they hold classically and in HT, static domain)."""
        if not self.one_point:
            return f
        if f[0] == 'exists':
            conj = f[2]
        elif f[0] == 'forall' and f[2][0] == 'imp':
            conj = f[2][1]
        else:
            return f
        vs = list(f[1])
        units = []
        changed = False
        for u in _flatten(conj, 'and'):
            if u[0] == 'exists':
                u = self._pull(u)
                body = u[2]
                for (name, sort) in u[1]:
                    Ctx._uniq += 1
                    fresh = '%s#%d' % (name, Ctx._uniq)
                    body = rename_free(body, (str(name), str(sort)), fresh)
                    vs.append((Q(fresh), sort))
                units.extend(_flatten(body, 'and'))
                changed = True
            else:
                units.append(u)
        if not changed:
            return f
        body = units[0]
        for u in units[1:]:
            body = ('and', body, u)
        if f[0] == 'exists':
            return ('exists', tuple(vs), body)
        return ('forall', tuple(vs), ('imp', body, f[2][2]))

    def _quantify(self, tag, bound, guards, body):
        if not bound:
            return body
        if self.finite_domain is not None:
            return self.expand(tag, bound, z3.Implies(z3.And(*guards), body) if (guards and tag == 'forall')
                               else (z3.And(*(guards + [body])) if guards else body))
        if tag == 'forall':
            return z3.ForAll(bound, z3.Implies(z3.And(*guards), body) if guards else body)
        return z3.Exists(bound, z3.And(*(guards + [body])) if guards else body)

    def expand(self, tag, bound, body):
        """Finite-structure reading: G-sorted bound constants range over self.finite_domain."""
        import itertools as _it
        gs = [c for c in bound if c.sort() == self.G]
        rest = [c for c in bound if c.sort() != self.G]
        if rest:
            raise ValueError('finite-domain expansion needs G-sorted variables only')
        insts = []
        for combo in _it.product(self.finite_domain, repeat=len(gs)):
            insts.append(z3.substitute(body, *zip(gs, combo)))
        return z3.And(*insts) if tag == 'forall' else z3.Or(*insts)

    def _find_defs(self, units, block):
        """Choose defining equations v = t for variables of the block (acyclic). Preference: right-hand sides
        that mention no still-undefined block variable; then remainder elimination I = A + R => R := I - A;
        then any other acyclic definition."""
        eqs = [c for c in units if c[0] == 'cmp' and len(c) == 4 and str(c[2]) == '=']
        defs = {}

        def ok_kind(k, t):
            kind = self.term_kind(t)
            if k[1] == 'i' and kind == 's':
                return False
            if k[1] == 's' and kind != 's':
                return False
            return True

        phase = {'pulled_only': True}

        def definable(k):
            return k is not None and k in block and k not in defs and (not phase['pulled_only'] or '#' in k[0])

        def round_simple(strict):
            changed = False
            for c in eqs:
                for v_t, t in ((c[1], c[3]), (c[3], c[1])):
                    k = _var_key(v_t)
                    if not definable(k):
                        continue
                    tv = term_vars(t, set())
                    if k in tv or not ok_kind(k, t):
                        continue
                    if strict and any(d in block and d not in defs and (not phase['pulled_only'] or '#' in d[0])
                                      for d in tv):
                        continue
                    if _depends(tv, k, defs):
                        continue
                    defs[k] = t
                    changed = True
                    break
            return changed

        def round_remainder():
            for c in eqs:
                for lhs, rhs in ((c[1], c[3]), (c[3], c[1])):
                    if rhs[0] == 'add' and self.term_kind(lhs) == 'i':
                        for a_, r_ in ((rhs[1], rhs[2]), (rhs[2], rhs[1])):
                            k = _var_key(r_)
                            others = term_vars(a_, set()) | term_vars(lhs, set())
                            if (definable(k) and k[1] == 'i'
                                    and k not in others and not _depends(others, k, defs)):
                                defs[k] = ('sub', lhs, a_)
                                return True
            return False

        # first the variables pulled out of nested existentials (named name#k), then the block's own
        for pulled_only in (True, False):
            phase['pulled_only'] = pulled_only
            while True:
                while round_simple(True):
                    pass
                if round_remainder():
                    continue
                if round_simple(False):
                    continue
                break
        return defs

    def _bind(self, f, env):
        """Bind the quantifier block of f. For existential blocks over a conjunction the one-point rule
        exists v (v = t and phi) <-> phi[v := t] (and its dual for universal blocks over an implication) is
        applied while building the z3 term (a logical
        equivalence, valid classically and in HT because equality is world-independent); the defining
        equality is still translated, so sort side conditions (an integer variable equated with a general
        term) remain as residual conjuncts."""
        block = []
        for (name, sort) in f[1]:
            k = (str(name), str(sort))
            if k not in block:
                block.append(k)
        defs = {}
        conj = None
        if self.one_point and f[0] == 'exists':
            conj = f[2]
        elif self.one_point and f[0] == 'forall' and f[2][0] == 'imp':
            conj = f[2][1]          # forall v (v = t and A -> B)  <->  (A -> B)[v := t]
        if conj is not None:
            defs = self._find_defs(_flatten(conj, 'and'), block)
        env2 = dict(env)
        bound = []
        self._guards = []
        # bound variables get canonical names (nesting depth, position in the block): alpha-equivalent formulas then
        # translate to *identical* solver terms, so the renaming part of an obligation is discharged by rewriting alone
        depth = env.get('__depth__', 0)
        env2['__depth__'] = depth + 1
        pos = 0
        for k in block:
            if k not in defs:
                if k[1] == 'i' and self.relativize_int:
                    c = z3.Const('b%d_%d$r' % (depth, pos), self.G)
                    env2[k] = self.G.ival(c)
                    self._guards.append(self.G.is_int(c))
                else:
                    c = z3.Const('b%d_%d$%s' % (depth, pos, k[1]), self.sort_of(k[1]))
                    env2[k] = c
                pos += 1
                bound.append(c)
        # evaluate definitions in dependency order
        pending = dict(defs)
        guard = 0
        while pending and guard < 1000:
            guard += 1
            for k, t in list(pending.items()):
                if any(d in pending for d in term_vars(t, set()) if d in defs):
                    continue
                kind = self.term_kind(t)
                if k[1] == 'g':
                    env2[k] = self.gterm(t, env2)
                elif k[1] == 'i':
                    env2[k] = self.iterm(t, env2) if kind == 'i' else self.G.ival(self.gterm(t, env2))
                else:
                    env2[k] = self.sterm(t, env2)
                del pending[k]
        return bound, env2

    def cl(self, f, env=None, predmap=None, world=''):
        """Classical truth. predmap(name, arity, world) -> FuncDecl overrides predicate lookup."""
        env = env or {}
        a = self._atomic(f, env, world, predmap)
        if a is not None:
            return a
        tag = f[0]
        if tag == 'not':
            return z3.Not(self.cl(f[1], env, predmap, world))
        if tag == 'and':
            return z3.And(self.cl(f[1], env, predmap, world), self.cl(f[2], env, predmap, world))
        if tag == 'or':
            return z3.Or(self.cl(f[1], env, predmap, world), self.cl(f[2], env, predmap, world))
        if tag == 'imp':
            return z3.Implies(self.cl(f[1], env, predmap, world), self.cl(f[2], env, predmap, world))
        if tag == 'rimp':
            return z3.Implies(self.cl(f[2], env, predmap, world), self.cl(f[1], env, predmap, world))
        if tag == 'iff':
            return self.cl(f[1], env, predmap, world) == self.cl(f[2], env, predmap, world)
        if tag in ('forall', 'exists'):
            f = self._pull(f)
            bound, env2 = self._bind(f, env)
            guards = self._guards
            body = self.cl(f[2], env2, predmap, world)
            return self._quantify(tag, bound, guards, body)
        raise ValueError('formula %r' % (f,))

    def ht(self, f, w, env=None, predmap=None):
        """Here-and-there truth at world w ('h' or 't'); predicates get copies p@h, p@t."""
        env = env or {}
        if w == 't':
            return self.cl(f, env, predmap, 't')
        a = self._atomic(f, env, 'h', predmap)
        if a is not None:
            return a
        tag = f[0]
        if tag == 'not':
            return z3.Not(self.cl(f[1], env, predmap, 't'))
        if tag == 'and':
            return z3.And(self.ht(f[1], 'h', env, predmap), self.ht(f[2], 'h', env, predmap))
        if tag == 'or':
            return z3.Or(self.ht(f[1], 'h', env, predmap), self.ht(f[2], 'h', env, predmap))
        if tag in ('imp', 'rimp', 'iff'):
            a_h, b_h = self.ht(f[1], 'h', env, predmap), self.ht(f[2], 'h', env, predmap)
            a_t, b_t = self.cl(f[1], env, predmap, 't'), self.cl(f[2], env, predmap, 't')
            if tag == 'imp':
                return z3.And(z3.Implies(a_h, b_h), z3.Implies(a_t, b_t))
            if tag == 'rimp':
                return z3.And(z3.Implies(b_h, a_h), z3.Implies(b_t, a_t))
            return z3.And(z3.Implies(a_h, b_h), z3.Implies(a_t, b_t),
                          z3.Implies(b_h, a_h), z3.Implies(b_t, a_t))
        if tag in ('forall', 'exists'):
            f = self._pull(f)
            bound, env2 = self._bind(f, env)
            guards = self._guards
            body = self.ht(f[2], 'h', env2, predmap)
            return self._quantify(tag, bound, guards, body)
        raise ValueError('formula %r' % (f,))

    def subset_conditions(self, preds):
        """H subset-of T for each (name, arity)."""
        out = []
        for (name, arity) in preds:
            ph, pt = self.pred(name, arity, 'h'), self.pred(name, arity, 't')
            if arity == 0:
                out.append(z3.Implies(ph(), pt()))
            else:
                xs = [self.fresh_const('x', self.G) for _ in range(arity)]
                out.append(z3.ForAll(xs, z3.Implies(ph(*xs), pt(*xs))))
        return out

    # ------------------------------------------------------------ mini-gringo reference (4.3)
    # A term denotes a set of values. It is described by a package (bound, cond, value): the values are
    # { value | exists bound. cond }. Interval-free terms are single-valued and need no bound variables;
    # division/modulo use the solver's own div/mod (floor quotient, remainder in [0, j)) and are defined
    # for positive divisors only; arithmetic is undefined on non-integers.
    def ival_pkg(self, t, env):
        """t as an integer operand: (bound Int consts, condition, Int expression)."""
        G = self.G
        tag = t[0]
        if tag == 'pnum':
            return [], z3.BoolVal(True), self.numeral(t[1])
        if tag == 'psym' and str(t[1]) in self.placeholders:
            srt = self.placeholders[str(t[1])]
            if srt == 'i':
                return [], z3.BoolVal(True), self.const('fc', t[1], 'i')
            if srt == 'g':
                c = self.const('fc', t[1], 'g')
                return [], G.is_int(c), G.ival(c)
            return [], z3.BoolVal(False), z3.IntVal(0)
        if tag in ('pinf', 'psup', 'psym'):
            return [], z3.BoolVal(False), z3.IntVal(0)
        if tag == 'var':
            x = env[str(t[1])]
            return [], G.is_int(x), G.ival(x)
        if tag == 'neg':
            b, c, v = self.ival_pkg(t[1], env)
            return b, c, 0 - v
        b1, c1, v1 = self.ival_pkg(t[1], env)
        b2, c2, v2 = self.ival_pkg(t[2], env)
        if tag == 'add':
            return b1 + b2, z3.And(c1, c2), v1 + v2
        if tag == 'sub':
            return b1 + b2, z3.And(c1, c2), v1 - v2
        if tag == 'mul':
            return b1 + b2, z3.And(c1, c2), v1 * v2
        if tag in ('div', 'mod'):
            # floor quotient q and remainder m of v1 by a positive divisor v2, by their defining equation
            # (equivalent to the solver's div/mod for v2 > 0, but linear whenever v2 is a numeral and free of
            # the div/mod axiomatisation when it is not)
            q = self.fresh_const('q', z3.IntSort())
            m = v1 - v2 * q          # the remainder, by the defining equation v1 = v2*q + m
            if self.twin == 'truncating':      # WRONG on purpose: any non-zero divisor
                return (b1 + b2 + [q], z3.And(c1, c2, v2 != 0, 0 <= m, m < z3.If(v2 > 0, v2, 0 - v2)),
                        q if tag == 'div' else m)
            return b1 + b2 + [q], z3.And(c1, c2, v2 > 0, 0 <= m, m < v2), q if tag == 'div' else m
        if tag == 'interval':
            k = self.fresh_const('k', z3.IntSort())
            if self.twin == 'interval-strict':  # WRONG on purpose: upper bound excluded
                return b1 + b2 + [k], z3.And(c1, c2, v1 <= k, k < v2), k
            return b1 + b2 + [k], z3.And(c1, c2, v1 <= k, k <= v2), k
        raise ValueError('asp term %r' % (t,))

    def gval_pkg(self, t, env):
        """t as a value of the standard domain: (bound, condition, G expression)."""
        G = self.G
        tag = t[0]
        if tag == 'pinf':
            return [], z3.BoolVal(True), G.inf
        if tag == 'psup':
            return [], z3.BoolVal(True), G.sup
        if tag == 'pnum':
            return [], z3.BoolVal(True), G.int(self.numeral(t[1]))
        if tag == 'psym' and str(t[1]) in self.placeholders:
            srt = self.placeholders[str(t[1])]
            c = self.const('fc', t[1], srt)
            return [], z3.BoolVal(True), {'i': G.int, 's': G.sym, 'g': lambda x: x}[srt](c)
        if tag == 'psym':
            return [], z3.BoolVal(True), G.sym(self.symbol(t[1]))
        if tag == 'var':
            return [], z3.BoolVal(True), env[str(t[1])]
        b, c, v = self.ival_pkg(t, env)
        return b, c, G.int(v)

    def val(self, t, r, env):
        """val(t, r): r (a G term) is one of the values of the ASP term t."""
        b, c, v = self.gval_pkg(t, env)
        body = z3.And(c, r == v)
        return z3.Exists(b, body) if b else body

    def body_lit(self, b, w, env):
        tag = b[0]
        if tag == 'lit':
            sign, atom = b[1], b[2]
            name, args = atom[1], atom[2:]
            pk = [self.gval_pkg(a, env) for a in args]
            bound = [x for p in pk for x in p[0]]
            conds = [p[1] for p in pk]
            vals = [p[2] for p in pk]
            if sign == 'pos':
                core = self.pred(name, len(args), w)(*vals)
            elif sign == 'not':
                core = z3.Not(self.pred(name, len(args), w if (self.twin == 'not-here' or w not in ('h', 't')) else 't')(*vals))
            else:
                core = self.pred(name, len(args), 't' if w in ('h', 't') else w)(*vals)
            body = z3.And(*(conds + [core])) if conds else core
            return z3.Exists(bound, body) if bound else body
        if tag == 'cmp':
            b1, c1, v1 = self.gval_pkg(b[2], env)
            b2, c2, v2 = self.gval_pkg(b[3], env)
            body = z3.And(c1, c2, self.rel(b[1], v1, v2))
            return z3.Exists(b1 + b2, body) if b1 + b2 else body
        raise ValueError('body %r' % (b,))

    def head(self, h, w, env):
        tag = h[0]
        if tag == 'falsity':
            return z3.BoolVal(False)
        atom = h[1]
        name, args = atom[1], atom[2:]
        pk = [self.gval_pkg(a, env) for a in args]
        bound = [x for p in pk for x in p[0]]
        conds = [p[1] for p in pk]
        vals = [p[2] for p in pk]
        pw = self.pred(name, len(args), w)(*vals)
        if tag == 'basic':
            concl = pw
        else:
            concl = z3.Or(pw, z3.Not(self.pred(name, len(args), 't' if w in ('h', 't') else w)(*vals)))
        if not args:
            return concl
        body = z3.Implies(z3.And(*conds), concl)
        return z3.ForAll(bound, body) if bound else body

    @staticmethod
    def asp_term_vars(t, acc):
        if t[0] == 'var':
            if str(t[1]) not in acc:
                acc.append(str(t[1]))
        elif t[0] in ('neg', 'add', 'sub', 'mul', 'div', 'mod', 'interval'):
            for x in t[1:]:
                Ctx.asp_term_vars(x, acc)

    @staticmethod
    def rule_vars(rule):
        acc = []
        h = rule[1]
        if h[0] != 'falsity':
            for a in h[1][2:]:
                Ctx.asp_term_vars(a, acc)
        for b in rule[2]:
            if b[0] == 'lit':
                for a in b[2][2:]:
                    Ctx.asp_term_vars(a, acc)
            else:
                Ctx.asp_term_vars(b[2], acc)
                Ctx.asp_term_vars(b[3], acc)
        return acc

    def rule_ref(self, rule, w):
        """HT satisfaction of one rule at world w (w='h' includes the t-part, as for implication)."""
        names = self.rule_vars(rule)
        xs = [self.fresh_const('X_' + n, self.G) for n in names]
        env = dict(zip(names, xs))

        def at(world):
            body = [self.body_lit(b, world, env) for b in rule[2]]
            hd = self.head(rule[1], world, env)
            return z3.Implies(z3.And(*body), hd) if body else hd

        inner = z3.And(at('h'), at('t')) if w == 'h' else at(w)
        if xs and self.finite_domain is not None:
            return self.expand('forall', xs, inner)
        return z3.ForAll(xs, inner) if xs else inner


# ---------------------------------------------------------------- syntactic helpers on fol trees

def _flatten(f, tag):
    if f[0] == tag:
        return _flatten(f[1], tag) + _flatten(f[2], tag)
    return [f]


def rename_term(t, key, fresh):
    tag = t[0]
    if tag in ('gvar', 'ivar', 'svar'):
        if _var_key(t) == key:
            return (tag, Q(fresh))
        return t
    if tag in ('neg', 'add', 'sub', 'mul'):
        return (tag,) + tuple(rename_term(x, key, fresh) for x in t[1:])
    return t


def rename_free(f, key, fresh):
    """Rename the free occurrences of variable key=(name, sort) in f to the (globally unused) name fresh."""
    tag = f[0]
    if tag == 'atom':
        return f[:2] + tuple(rename_term(t, key, fresh) for t in f[2:])
    if tag == 'cmp':
        return ('cmp',) + tuple(rename_term(x, key, fresh) if i % 2 == 0 else x for i, x in enumerate(f[1:]))
    if tag == 'not':
        return ('not', rename_free(f[1], key, fresh))
    if tag in ('and', 'or', 'imp', 'rimp', 'iff'):
        return (tag, rename_free(f[1], key, fresh), rename_free(f[2], key, fresh))
    if tag in ('forall', 'exists'):
        if any((str(n), str(s)) == key for (n, s) in f[1]):
            return f
        return (tag, f[1], rename_free(f[2], key, fresh))
    return f


def _var_key(t):
    if t[0] == 'gvar':
        return (str(t[1]), 'g')
    if t[0] == 'ivar':
        return (str(t[1]), 'i')
    if t[0] == 'svar':
        return (str(t[1]), 's')
    return None


def _depends(tvars, k, defs, seen=None):
    seen = seen or set()
    for d in tvars:
        if d == k:
            return True
        if d in defs and d not in seen:
            seen.add(d)
            if _depends(term_vars(defs[d], set()), k, defs, seen):
                return True
    return False


def fol_preds(f, acc=None):
    acc = set() if acc is None else acc
    tag = f[0]
    if tag == 'atom':
        acc.add((str(f[1]), len(f) - 2))
    elif tag in ('not',):
        fol_preds(f[1], acc)
    elif tag in ('and', 'or', 'imp', 'rimp', 'iff'):
        fol_preds(f[1], acc)
        fol_preds(f[2], acc)
    elif tag in ('forall', 'exists'):
        fol_preds(f[2], acc)
    return acc


def term_vars(t, acc):
    tag = t[0]
    if tag == 'gvar':
        acc.add((str(t[1]), 'g'))
    elif tag == 'ivar':
        acc.add((str(t[1]), 'i'))
    elif tag == 'svar':
        acc.add((str(t[1]), 's'))
    elif tag in ('neg', 'add', 'sub', 'mul'):
        for x in t[1:]:
            term_vars(x, acc)
    return acc


def free_vars(f, bound=frozenset(), acc=None):
    acc = set() if acc is None else acc
    tag = f[0]
    if tag == 'atom':
        for t in f[2:]:
            acc |= (term_vars(t, set()) - bound)
    elif tag == 'cmp':
        for t in f[1::2]:
            acc |= (term_vars(t, set()) - bound)
    elif tag == 'not':
        free_vars(f[1], bound, acc)
    elif tag in ('and', 'or', 'imp', 'rimp', 'iff'):
        free_vars(f[1], bound, acc)
        free_vars(f[2], bound, acc)
    elif tag in ('forall', 'exists'):
        b2 = bound | frozenset((str(n), str(s)) for (n, s) in f[1])
        free_vars(f[2], b2, acc)
    return acc


def asp_preds(program):
    acc = set()
    for rule in program[1:]:
        h = rule[1]
        if h[0] != 'falsity':
            acc.add((str(h[1][1]), len(h[1]) - 2))
        for b in rule[2]:
            if b[0] == 'lit':
                acc.add((str(b[2][1]), len(b[2]) - 2))
    return acc


def fol_size(f):
    if not isinstance(f, tuple):
        return 1
    return 1 + sum(fol_size(x) for x in f[1:])
