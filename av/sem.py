"""Reference semantics (the trusted base, DESIGN.md section 4) as z3 terms.

Standard domain G = inf | int(Int) | sym(Sym) | sup with its total order; Sym is an
uninterpreted sort carrying an (axiomatised) total order, so an `unsat` verdict holds
for *every* totally ordered set of symbols, in particular the lexicographically
ordered identifiers. Integers are unbounded (z3 Int).

 * cl(F): classical truth of a target-language formula
 * ht(F, w): here-and-there truth at world w in {'h','t'}
 * rule_ref(rule, w): reference mini-gringo semantics of a rule (section 4.3)
"""
import z3

from .sexp import Q


class Ctx:
    """One verification condition's worth of z3 declarations."""

    def __init__(self, abstract_order=False):
        # abstract_order: comparisons other than =/!= become uninterpreted predicates on G. Validity under
        # the abstraction implies validity under the real order (used only to turn `unknown` into `unsat`).
        self.abstract_order = abstract_order
        self.G = None
        self._mk_sorts()
        self.preds = {}       # (name, arity, world) -> FuncDecl
        self.consts = {}      # (kind, name, sort) -> const
        self.syms = {}        # symbol name -> Sym const
        self.numerals = {}    # sentinel value -> Int const (symbolic numerals)
        self.sentinels = set()
        self.side = []        # side conditions collected (symbol order facts etc.)
        self.fresh = 0

    # ------------------------------------------------------------ sorts
    def _mk_sorts(self):
        self.Sym = z3.DeclareSort('Sym')
        G = z3.Datatype('G')
        G.declare('inf')
        G.declare('int', ('ival', z3.IntSort()))
        G.declare('sym', ('sval', self.Sym))
        G.declare('sup')
        self.G = G.create()
        self.sle = z3.Function('sle', self.Sym, self.Sym, z3.BoolSort())

    def order_axioms(self):
        a, b, c = z3.Consts('sa sb sc', self.Sym)
        sle = self.sle
        return [
            z3.ForAll([a], sle(a, a)),
            z3.ForAll([a, b], z3.Implies(z3.And(sle(a, b), sle(b, a)), a == b)),
            z3.ForAll([a, b, c], z3.Implies(z3.And(sle(a, b), sle(b, c)), sle(a, c))),
            z3.ForAll([a, b], z3.Or(sle(a, b), sle(b, a))),
        ]

    def sort_of(self, s):
        return {'g': self.G, 'i': z3.IntSort(), 's': self.Sym}[s]

    # ------------------------------------------------------------ declarations
    def pred(self, name, arity, world=''):
        k = (str(name), arity, world)
        if k not in self.preds:
            self.preds[k] = z3.Function('%s/%d%s' % (name, arity, '@' + world if world else ''),
                                        *([self.G] * arity + [z3.BoolSort()]))
        return self.preds[k]

    def const(self, kind, name, sort):
        k = (kind, str(name), sort)
        if k not in self.consts:
            self.consts[k] = z3.Const('%s:%s$%s' % (kind, name, sort), self.sort_of(sort))
        return self.consts[k]

    def symbol(self, name):
        name = str(name)
        if name not in self.syms:
            self.syms[name] = z3.Const('sym:%s' % name, self.Sym)
        return self.syms[name]

    def symbol_facts(self):
        """Order facts between the named symbols (code-point lexicographic order)."""
        names = sorted(self.syms)
        facts = []
        for a, b in zip(names, names[1:]):
            facts.append(z3.And(self.sle(self.syms[a], self.syms[b]), self.syms[a] != self.syms[b]))
        return facts

    def numeral(self, n):
        n = int(n)
        if n in self.sentinels:
            if n not in self.numerals:
                self.numerals[n] = z3.Int('num:%d' % n)
            return self.numerals[n]
        return z3.IntVal(n)

    def fresh_const(self, prefix, sort):
        self.fresh += 1
        return z3.Const('%s!%d' % (prefix, self.fresh), sort)

    # ------------------------------------------------------------ order on G
    def rank(self, x):
        G = self.G
        return z3.If(G.is_inf(x), 0, z3.If(G.is_int(x), 1, z3.If(G.is_sym(x), 2, 3)))

    def leq(self, x, y):
        G = self.G
        return z3.Or(
            self.rank(x) < self.rank(y),
            z3.And(G.is_int(x), G.is_int(y), G.ival(x) <= G.ival(y)),
            z3.And(G.is_sym(x), G.is_sym(y), self.sle(G.sval(x), G.sval(y))),
            z3.And(G.is_inf(x), G.is_inf(y)),
            z3.And(G.is_sup(x), G.is_sup(y)),
        )

    def rel(self, r, x, y):
        """x r y for G-sorted x, y."""
        r = str(r)
        if r == '=':
            return x == y
        if r == '!=':
            return x != y
        if self.abstract_order:
            return z3.Function('absrel' + r, self.G, self.G, z3.BoolSort())(x, y)
        if r == '<=':
            return self.leq(x, y)
        if r == '>=':
            return self.leq(y, x)
        if r == '<':
            return z3.And(self.leq(x, y), x != y)
        if r == '>':
            return z3.And(self.leq(y, x), x != y)
        raise ValueError(r)

    # ------------------------------------------------------------ fol terms
    def iterm(self, t, env):
        tag = t[0]
        if tag == 'num':
            return self.numeral(t[1])
        if tag == 'ifc':
            return self.const('fc', t[1], 'i')
        if tag == 'ivar':
            k = (str(t[1]), 'i')
            return env[k] if k in env else self.const('var', t[1], 'i')
        if tag == 'neg':
            return -self.iterm(t[1], env)
        if tag == 'add':
            return self.iterm(t[1], env) + self.iterm(t[2], env)
        if tag == 'sub':
            return self.iterm(t[1], env) - self.iterm(t[2], env)
        if tag == 'mul':
            return self.iterm(t[1], env) * self.iterm(t[2], env)
        raise ValueError('integer term %r' % (t,))

    def sterm(self, t, env):
        tag = t[0]
        if tag == 'sym':
            return self.symbol(t[1])
        if tag == 'sfc':
            return self.const('fc', t[1], 's')
        if tag == 'svar':
            k = (str(t[1]), 's')
            return env[k] if k in env else self.const('var', t[1], 's')
        raise ValueError('symbolic term %r' % (t,))

    def gterm(self, t, env):
        tag = t[0]
        G = self.G
        if tag == 'inf':
            return G.inf
        if tag == 'sup':
            return G.sup
        if tag == 'gfc':
            return self.const('fc', t[1], 'g')
        if tag == 'gvar':
            k = (str(t[1]), 'g')
            return env[k] if k in env else self.const('var', t[1], 'g')
        if tag in ('sym', 'sfc', 'svar'):
            return G.sym(self.sterm(t, env))
        return G.int(self.iterm(t, env))

    @staticmethod
    def term_kind(t):
        tag = t[0]
        if tag in ('inf', 'sup', 'gfc', 'gvar'):
            return 'g'
        if tag in ('sym', 'sfc', 'svar'):
            return 's'
        return 'i'

    def compare(self, r, a, b, env):
        ka, kb = self.term_kind(a), self.term_kind(b)
        r = str(r)
        if self.abstract_order and r not in ('=', '!='):
            return self.rel(r, self.gterm(a, env), self.gterm(b, env))
        if ka == 'i' and kb == 'i':
            x, y = self.iterm(a, env), self.iterm(b, env)
            return {'=': x == y, '!=': x != y, '<': x < y, '<=': x <= y, '>': x > y, '>=': x >= y}[r]
        if ka == 's' and kb == 's':
            x, y = self.sterm(a, env), self.sterm(b, env)
            sle = self.sle
            return {'=': x == y, '!=': x != y, '<=': sle(x, y), '>=': sle(y, x),
                    '<': z3.And(sle(x, y), x != y), '>': z3.And(sle(y, x), x != y)}[r]
        return self.rel(r, self.gterm(a, env), self.gterm(b, env))

    # ------------------------------------------------------------ fol formulas
    def _atomic(self, f, env, world, predmap):
        tag = f[0]
        if tag == 'true':
            return z3.BoolVal(True)
        if tag == 'false':
            return z3.BoolVal(False)
        if tag == 'atom':
            name, args = f[1], f[2:]
            if predmap is not None:
                p = predmap(str(name), len(args), world)
            else:
                p = self.pred(name, len(args), world)
            zs = [self.gterm(a, env) for a in args]
            return p(*zs) if zs else p()
        if tag == 'cmp':
            links = []
            lhs = f[1]
            i = 2
            while i < len(f):
                links.append(self.compare(f[i], lhs, f[i + 1], env))
                lhs = f[i + 1]
                i += 2
            return z3.And(*links) if len(links) != 1 else links[0]
        return None

    def _bind(self, f, env):
        bound = []
        env2 = dict(env)
        for (name, sort) in f[1]:
            c = self.fresh_const('%s$%s' % (name, sort), self.sort_of(sort))
            env2[(str(name), str(sort))] = c
            bound.append(c)
        return bound, env2

    def cl(self, f, env=None, predmap=None, world=''):
        """Classical truth. predmap(name, arity, world) -> FuncDecl overrides predicate lookup."""
        env = env or {}
        a = self._atomic(f, env, world, predmap)
        if a is not None:
            return a
        tag = f[0]
        if tag == 'not':
            return z3.Not(self.cl(f[1], env, predmap, world))
        if tag == 'and':
            return z3.And(self.cl(f[1], env, predmap, world), self.cl(f[2], env, predmap, world))
        if tag == 'or':
            return z3.Or(self.cl(f[1], env, predmap, world), self.cl(f[2], env, predmap, world))
        if tag == 'imp':
            return z3.Implies(self.cl(f[1], env, predmap, world), self.cl(f[2], env, predmap, world))
        if tag == 'rimp':
            return z3.Implies(self.cl(f[2], env, predmap, world), self.cl(f[1], env, predmap, world))
        if tag == 'iff':
            return self.cl(f[1], env, predmap, world) == self.cl(f[2], env, predmap, world)
        if tag in ('forall', 'exists'):
            bound, env2 = self._bind(f, env)
            body = self.cl(f[2], env2, predmap, world)
            if not bound:
                return body
            return z3.ForAll(bound, body) if tag == 'forall' else z3.Exists(bound, body)
        raise ValueError('formula %r' % (f,))

    def ht(self, f, w, env=None, predmap=None):
        """Here-and-there truth at world w ('h' or 't'); predicates get copies p@h, p@t."""
        env = env or {}
        if w == 't':
            return self.cl(f, env, predmap, 't')
        a = self._atomic(f, env, 'h', predmap)
        if a is not None:
            return a
        tag = f[0]
        if tag == 'not':
            return z3.Not(self.cl(f[1], env, predmap, 't'))
        if tag == 'and':
            return z3.And(self.ht(f[1], 'h', env, predmap), self.ht(f[2], 'h', env, predmap))
        if tag == 'or':
            return z3.Or(self.ht(f[1], 'h', env, predmap), self.ht(f[2], 'h', env, predmap))
        if tag in ('imp', 'rimp', 'iff'):
            a_h, b_h = self.ht(f[1], 'h', env, predmap), self.ht(f[2], 'h', env, predmap)
            a_t, b_t = self.cl(f[1], env, predmap, 't'), self.cl(f[2], env, predmap, 't')
            if tag == 'imp':
                return z3.And(z3.Implies(a_h, b_h), z3.Implies(a_t, b_t))
            if tag == 'rimp':
                return z3.And(z3.Implies(b_h, a_h), z3.Implies(b_t, a_t))
            return z3.And(z3.Implies(a_h, b_h), z3.Implies(a_t, b_t),
                          z3.Implies(b_h, a_h), z3.Implies(b_t, a_t))
        if tag in ('forall', 'exists'):
            bound, env2 = self._bind(f, env)
            body = self.ht(f[2], 'h', env2, predmap)
            if not bound:
                return body
            return z3.ForAll(bound, body) if tag == 'forall' else z3.Exists(bound, body)
        raise ValueError('formula %r' % (f,))

    def subset_conditions(self, preds):
        """H subset-of T for each (name, arity)."""
        out = []
        for (name, arity) in preds:
            ph, pt = self.pred(name, arity, 'h'), self.pred(name, arity, 't')
            if arity == 0:
                out.append(z3.Implies(ph(), pt()))
            else:
                xs = [self.fresh_const('x', self.G) for _ in range(arity)]
                out.append(z3.ForAll(xs, z3.Implies(ph(*xs), pt(*xs))))
        return out

    # ------------------------------------------------------------ mini-gringo reference (4.3)
    def val(self, t, r, env):
        """val(t, r): r (a G term) is one of the values of the ASP term t."""
        G = self.G
        tag = t[0]
        if tag == 'pinf':
            return r == G.inf
        if tag == 'psup':
            return r == G.sup
        if tag == 'pnum':
            return r == G.int(self.numeral(t[1]))
        if tag == 'psym':
            return r == G.sym(self.symbol(t[1]))
        if tag == 'var':
            return r == env[str(t[1])]
        if tag == 'neg':
            j = self.fresh_const('j', z3.IntSort())
            return z3.Exists([j], z3.And(self.val(t[1], G.int(j), env), r == G.int(0 - j)))
        i = self.fresh_const('i', z3.IntSort())
        j = self.fresh_const('j', z3.IntSort())
        vi = self.val(t[1], G.int(i), env)
        vj = self.val(t[2], G.int(j), env)
        if tag == 'add':
            return z3.Exists([i, j], z3.And(vi, vj, r == G.int(i + j)))
        if tag == 'sub':
            return z3.Exists([i, j], z3.And(vi, vj, r == G.int(i - j)))
        if tag == 'mul':
            return z3.Exists([i, j], z3.And(vi, vj, r == G.int(i * j)))
        if tag in ('div', 'mod'):
            # floor quotient / non-negative remainder, defined for positive divisors only
            q = self.fresh_const('q', z3.IntSort())
            m = self.fresh_const('m', z3.IntSort())
            res = q if tag == 'div' else m
            return z3.Exists([i, j, q, m], z3.And(vi, vj, j > 0, i == j * q + m, 0 <= m, m < j,
                                                  r == G.int(res)))
        if tag == 'interval':
            k = self.fresh_const('k', z3.IntSort())
            return z3.Exists([i, j, k], z3.And(vi, vj, i <= k, k <= j, r == G.int(k)))
        raise ValueError('asp term %r' % (t,))

    def body_lit(self, b, w, env):
        tag = b[0]
        if tag == 'lit':
            sign, atom = b[1], b[2]
            name, args = atom[1], atom[2:]
            rs = [self.fresh_const('r', self.G) for _ in args]
            vals = [self.val(a, r, env) for a, r in zip(args, rs)]
            if sign == 'pos':
                core = self.pred(name, len(args), w)(*rs)
            elif sign == 'not':
                core = z3.Not(self.pred(name, len(args), 't')(*rs))
            else:
                core = self.pred(name, len(args), 't')(*rs)
            body = z3.And(*(vals + [core])) if vals else core
            return z3.Exists(rs, body) if rs else body
        if tag == 'cmp':
            r1 = self.fresh_const('r', self.G)
            r2 = self.fresh_const('r', self.G)
            return z3.Exists([r1, r2], z3.And(self.val(b[2], r1, env), self.val(b[3], r2, env),
                                              self.rel(b[1], r1, r2)))
        raise ValueError('body %r' % (b,))

    def head(self, h, w, env):
        tag = h[0]
        if tag == 'falsity':
            return z3.BoolVal(False)
        atom = h[1]
        name, args = atom[1], atom[2:]
        rs = [self.fresh_const('r', self.G) for _ in args]
        vals = [self.val(a, r, env) for a, r in zip(args, rs)]
        pw = self.pred(name, len(args), w)(*rs)
        if tag == 'basic':
            concl = pw
        else:
            concl = z3.Or(pw, z3.Not(self.pred(name, len(args), 't')(*rs)))
        if not rs:
            return concl
        return z3.ForAll(rs, z3.Implies(z3.And(*vals), concl))

    @staticmethod
    def asp_term_vars(t, acc):
        if t[0] == 'var':
            if str(t[1]) not in acc:
                acc.append(str(t[1]))
        elif t[0] in ('neg', 'add', 'sub', 'mul', 'div', 'mod', 'interval'):
            for x in t[1:]:
                Ctx.asp_term_vars(x, acc)

    @staticmethod
    def rule_vars(rule):
        acc = []
        h = rule[1]
        if h[0] != 'falsity':
            for a in h[1][2:]:
                Ctx.asp_term_vars(a, acc)
        for b in rule[2]:
            if b[0] == 'lit':
                for a in b[2][2:]:
                    Ctx.asp_term_vars(a, acc)
            else:
                Ctx.asp_term_vars(b[2], acc)
                Ctx.asp_term_vars(b[3], acc)
        return acc

    def rule_ref(self, rule, w):
        """HT satisfaction of one rule at world w (w='h' includes the t-part, as for implication)."""
        names = self.rule_vars(rule)
        xs = [self.fresh_const('X_' + n, self.G) for n in names]
        env = dict(zip(names, xs))

        def at(world):
            body = [self.body_lit(b, world, env) for b in rule[2]]
            hd = self.head(rule[1], world, env)
            return z3.Implies(z3.And(*body), hd) if body else hd

        inner = at('t') if w == 't' else z3.And(at('h'), at('t'))
        return z3.ForAll(xs, inner) if xs else inner


# ---------------------------------------------------------------- syntactic helpers on fol trees

def fol_preds(f, acc=None):
    acc = set() if acc is None else acc
    tag = f[0]
    if tag == 'atom':
        acc.add((str(f[1]), len(f) - 2))
    elif tag in ('not',):
        fol_preds(f[1], acc)
    elif tag in ('and', 'or', 'imp', 'rimp', 'iff'):
        fol_preds(f[1], acc)
        fol_preds(f[2], acc)
    elif tag in ('forall', 'exists'):
        fol_preds(f[2], acc)
    return acc


def term_vars(t, acc):
    tag = t[0]
    if tag == 'gvar':
        acc.add((str(t[1]), 'g'))
    elif tag == 'ivar':
        acc.add((str(t[1]), 'i'))
    elif tag == 'svar':
        acc.add((str(t[1]), 's'))
    elif tag in ('neg', 'add', 'sub', 'mul'):
        for x in t[1:]:
            term_vars(x, acc)
    return acc


def free_vars(f, bound=frozenset(), acc=None):
    acc = set() if acc is None else acc
    tag = f[0]
    if tag == 'atom':
        for t in f[2:]:
            acc |= (term_vars(t, set()) - bound)
    elif tag == 'cmp':
        for t in f[1::2]:
            acc |= (term_vars(t, set()) - bound)
    elif tag == 'not':
        free_vars(f[1], bound, acc)
    elif tag in ('and', 'or', 'imp', 'rimp', 'iff'):
        free_vars(f[1], bound, acc)
        free_vars(f[2], bound, acc)
    elif tag in ('forall', 'exists'):
        b2 = bound | frozenset((str(n), str(s)) for (n, s) in f[1])
        free_vars(f[2], b2, acc)
    return acc


def asp_preds(program):
    acc = set()
    for rule in program[1:]:
        h = rule[1]
        if h[0] != 'falsity':
            acc.add((str(h[1][1]), len(h[1]) - 2))
        for b in rule[2]:
            if b[0] == 'lit':
                acc.add((str(b[2][1]), len(b[2]) - 2))
    return acc


def fol_size(f):
    if not isinstance(f, tuple):
        return 1
    return 1 + sum(fol_size(x) for x in f[1:])
