"""Mini-gringo program text builders (the real parser turns text into trees; trees come back via the bridge)."""
import itertools
import random

OPS = {'add': '+', 'sub': '-', 'mul': '*', 'div': '/', 'mod': '\\', 'interval': '..'}

# terms are tiny tuples: ('v', name) | ('n', int) | ('s', name) | ('inf',) | ('sup',) | ('neg', t) | (op, a, b)


def V(n): return ('v', n)
def N(n): return ('n', n)
def S(n): return ('s', n)
INF = ('inf',)
SUP = ('sup',)


def tt(t):
    k = t[0]
    if k == 'v': return t[1]
    if k == 'n': return str(t[1]) if t[1] >= 0 else '(%d)' % t[1]
    if k == 's': return t[1]
    if k == 'inf': return '#inf'
    if k == 'sup': return '#sup'
    if k == 'neg': return '-(%s)' % tt(t[1])
    a, b = t[1], t[2]
    pa = tt(a) if a[0] in ('v', 'n', 's', 'inf', 'sup') else '(%s)' % tt(a)
    pb = tt(b) if b[0] in ('v', 'n', 's', 'inf', 'sup') else '(%s)' % tt(b)
    return '%s %s %s' % (pa, OPS[k], pb)


def atom(name, *ts):
    return name if not ts else '%s(%s)' % (name, ', '.join(tt(t) for t in ts))


def rule(head, body=()):
    body = list(body)
    if head is None:
        head = ''
    if body:
        return ('%s :- %s.' % (head, ', '.join(body))).strip()
    return '%s.' % head


def choice(a):
    return '{%s}' % a


def rename(t, m):
    k = t[0]
    if k == 'v':
        return ('v', m.get(t[1], t[1]))
    if k in ('n', 's', 'inf', 'sup'):
        return t
    return (k,) + tuple(rename(x, m) for x in t[1:])


def term_depth(t):
    if t[0] in ('v', 'n', 's', 'inf', 'sup'):
        return 0
    return 1 + max(term_depth(x) for x in t[1:])


def terms_up_to(depth, leaves, small_leaves, ops=tuple(OPS)):
    """All terms of operator depth exactly 1..depth; deeper levels combine with small_leaves only."""
    levels = [list(leaves)]
    d1 = [('neg', a) for a in small_leaves]
    for op in ops:
        for a in small_leaves:
            for b in small_leaves:
                d1.append((op, a, b))
    levels.append(d1)
    for _ in range(2, depth + 1):
        prev = levels[-1]
        nxt = [('neg', a) for a in prev]
        for op in ops:
            for a in prev:
                for b in small_leaves:
                    nxt.append((op, a, b))
                    nxt.append((op, b, a))
        levels.append(nxt)
    return levels


PREC = {'interval': 1, 'add': 2, 'sub': 2, 'mul': 3, 'div': 3, 'mod': 3, 'neg': 4}


def prec(t):
    return PREC.get(t[0], 5)


def tt_min(t):
    """Minimal parentheses under the language's precedence (.. < + - < * / \\ < unary -; binary operators left-associative)."""
    k = t[0]
    if k in ('v', 's'):
        return t[1]
    if k == 'n':
        return str(t[1])
    if k == 'inf':
        return '#inf'
    if k == 'sup':
        return '#sup'
    if k == 'neg':
        a = tt_min(t[1])
        return '-%s' % (a if prec(t[1]) >= 5 else '(%s)' % a)
    a, b = t[1], t[2]
    sa = tt_min(a) if prec(a) >= prec(t) else '(%s)' % tt_min(a)
    sb = tt_min(b) if prec(b) > prec(t) else '(%s)' % tt_min(b)
    return '%s %s %s' % (sa, OPS[k], sb)


def to_sexp(t):
    """my term tuples -> the bridge's S-expression form"""
    from .sexp import Q
    k = t[0]
    if k == 'v':
        return ('var', Q(t[1]))
    if k == 'n':
        return ('pnum', str(t[1]))
    if k == 's':
        return ('psym', Q(t[1]))
    if k == 'inf':
        return ('pinf',)
    if k == 'sup':
        return ('psup',)
    return (k,) + tuple(to_sexp(x) for x in t[1:])


def random_term(rnd, depth, leaves):
    if depth == 0 or rnd.random() < 0.2:
        return rnd.choice(leaves)
    k = rnd.choice(['add', 'sub', 'mul', 'div', 'mod', 'interval', 'neg', 'add', 'sub', 'mul'])
    if k == 'neg':
        a = random_term(rnd, depth - 1, leaves)
        if a[0] == 'n':          # `-5` is a negative numeral token, not unary minus applied to 5: keep the two apart
            a = ('v', 'X')
        return ('neg', a)
    return (k, random_term(rnd, depth - 1, leaves), random_term(rnd, depth - 1, leaves))
