"""C06 - TPTP rendering of a formula preserves its meaning."""
import itertools
import os
import random
import subprocess

import z3

from . import bridge as bridge_mod
from . import driver
from . import tff
from .checks_common import generic_replay
from .fol import *
from .fol import text as ftext
from .sem import Ctx, fol_preds, fol_size, free_vars
from .sexp import Q, render

PROPERTY = 'C06'
LEVEL = 'translation_validation'

X, Y, Z = gvar('X'), gvar('Y'), gvar('Z')
XI, YI = ivar('X'), ivar('Y')
XS = svar('X')
IMAX, IMIN = 9223372036854775807, -9223372036854775808

TERMS = [X, XI, XS, num(0), num(-1), num(5), num(-42), sym('a'), sym('b'), INF, SUP, add(XI, num(1)), mul(YI, num(-2)),
         ineg(XI), sub(num(0), XI), ('gfc', Q('c')), ('ifc', Q('c')), ('sfc', Q('c')), Y, YI]
RELS = ['=', '!=', '<', '<=', '>', '>=']


def comparisons(rnd, n):
    out = []
    # every relation on every sort combination (length 1)
    picks = [X, XI, XS, num(-1), sym('a'), INF, ('ifc', Q('c')), ('sfc', Q('c')), ('gfc', Q('c')), add(XI, num(1))]
    for a, b in itertools.product(picks, picks):
        for r in RELS:
            out.append(cmp(a, r, b))
    # chains of length 2..4
    for _ in range(n):
        k = rnd.choice([2, 2, 3, 4])
        ts = [rnd.choice(TERMS) for _ in range(k + 1)]
        c = [ts[0]]
        for t in ts[1:]:
            c += [rnd.choice(RELS), t]
        out.append(cmp(*c))
    return out


def generate(tier, seed):
    rnd = random.Random(seed)
    items = []
    cmps = comparisons(rnd, 150 if tier == 'quick' else 8000)
    chains = [c for c in cmps if len(c) > 4]
    atoms = [atom('p'), atom('q', X), atom('r', XI, sym('a')), atom('q', XS), TRUE, FALSE, atom('r', ('ifc', Q('c')), Y)]
    for c in cmps:
        items.append({'family': 'comparison', 'formula': c})
    for a in atoms:
        items.append({'family': 'atom', 'formula': a})
    # every connective at every position over depth <= 2, with chained comparisons among the operands
    small = [atom('p'), atom('q', X), cmp(X, '<', num(3)), cmp(num(1), '<=', XI, '<', num(3)), cmp(X, '=', Y, '!=', sym('a'), '<', Z)]
    quants = [('forall', [var('X')]), ('exists', [var('X'), var('X', 'i'), var('X', 's')]), ('forall', [var('Y', 'i')])]
    d1 = list(unary_binary_quant(small, small, quants))
    for f in d1:
        items.append({'family': 'depth1', 'formula': f})
    pool2 = d1 if tier == 'thorough' else rnd.sample(d1, 60)
    for f in pool2:
        for g in small:
            for op in BIN:
                items.append({'family': 'depth2', 'formula': (op, f, g)})
                items.append({'family': 'depth2', 'formula': (op, g, f)})
        items.append({'family': 'depth2', 'formula': neg(f)})
        for (q, vs) in quants:
            items.append({'family': 'depth2', 'formula': (q, tuple(vs), f)})
    # chains under every connective
    for c in rnd.sample(chains, min(len(chains), 60 if tier == 'quick' else 600)):
        for wrap in (neg(c), disj(c, atom('p')), disj(atom('p'), c), imp(c, atom('p')), imp(atom('p'), c), iff(c, atom('p')),
                     rimp(c, atom('p')), conj(c, atom('p')), conj(atom('p'), c), forall([var('X')], c), exists([var('X', 'i')], c),
                     neg(neg(c)), conj(c, c), iff(c, c)):
            items.append({'family': 'chain-in-context', 'formula': wrap})
    # numerals at the limits
    for n in (0, 1, -1, 2, 10, -10, IMAX, IMAX - 1, IMIN + 1, IMIN):
        items.append({'family': 'numerals', 'formula': atom('q', num(n))})
        items.append({'family': 'numerals', 'formula': cmp(XI, '<', sub(num(n), num(1)))})
    # integer terms: every operator over every leaf kind (variable, zero, positive / negative numeral, placeholder), depth <=1
    # exhaustively and depth 2 for every shape with a unary minus, the rest of depth 2 seeded
    ileaves = [XI, num(0), num(5), num(-5), ('ifc', Q('c'))]
    ibin = (add, sub, mul)
    it1 = [ineg(a) for a in ileaves] + [op(a, b_) for op in ibin for a in ileaves for b_ in ileaves]
    it2 = [ineg(t) for t in it1] + [op(ineg(a), b_) for op in ibin for a in ileaves for b_ in ileaves[:3]] \
        + [op(b_, ineg(a)) for op in ibin for a in ileaves for b_ in ileaves[:3]]
    rest = [op(t, a) for op in ibin for t in it1 for a in ileaves] + [op(a, t) for op in ibin for t in it1 for a in ileaves]
    rnd.shuffle(rest)
    for t in ileaves + it1 + it2 + rest[:200 if tier == 'quick' else len(rest)]:
        items.append({'family': 'integer-terms', 'formula': atom('q', t)})
        items.append({'family': 'integer-terms', 'formula': cmp(YI, '<=', t)})
    # seeded deeper tail
    n = 300 if tier == 'quick' else 40000
    pool = small + d1[:60] + chains[:40]
    for _ in range(n):
        a, b_, c = rnd.choice(pool), rnd.choice(pool), rnd.choice(pool)
        f = (rnd.choice(BIN), (rnd.choice(BIN), a, neg(b_)), (rnd.choice(['forall', 'exists']), (var('X'),), c))
        items.append({'family': 'seeded-depth3+', 'formula': f})
    # the numeral kernel for every isize (MIR -> 64-bit bit-vector SMT), see av/mirkernel.py
    items.append({'family': 'numeral-kernel-all-isize', 'kernel': True})
    # formulas anthem actually puts into problems
    for l, r in (('p(X) :- q(X), not r(X + 1).', 'p(X) :- q(X), X != a.'), ('p(1..3, a).', '{p(X, Y)} :- q(X / 2, Y).'),
                 ('p :- q, not s. s :- 1 < 2.', ':- p, #sup > X, q(X).')):
        items.append({'family': 'problem-formulas', 'strong': (l, r)})
    from .c02 import TASKS as EXT_TASKS
    for t in EXT_TASKS:
        if t[0] in ('placeholder-integer', 'placeholder-arith', 'placeholder-general', 'placeholder-symbol-vs-symbol', 'spec-placeholder-private',
                    'spec-exists-equivalence', 'spec-nested-equivalences', 'interval-head-choice', 'division', 'symbol-vs-zero-ary-predicate'):
            items.append({'family': 'problem-formulas', 'external': t})
    return items


def meaning_of(f):
    """documented mangling: predicates and symbols keep their names; function constants get _g/_i/_s"""
    m = {}
    clashes = []

    def put(ident, what):
        if ident in m and m[ident] != what:
            clashes.append((ident, m[ident], what))
        m[ident] = what

    def term(t):
        tag = t[0]
        if tag == 'sym':
            put(str(t[1]), ('sym', str(t[1])))
        elif tag == 'gfc':
            put(str(t[1]) + '_g', ('fc', str(t[1]), 'g'))
        elif tag == 'ifc':
            put(str(t[1]) + '_i', ('fc', str(t[1]), 'i'))
        elif tag == 'sfc':
            put(str(t[1]) + '_s', ('fc', str(t[1]), 's'))
        elif tag in ('neg', 'add', 'sub', 'mul'):
            for x in t[1:]:
                term(x)

    def go(f):
        tag = f[0]
        if tag == 'atom':
            put(str(f[1]), ('pred', str(f[1]), len(f) - 2))
            for t in f[2:]:
                term(t)
        elif tag == 'cmp':
            for t in f[1::2]:
                term(t)
        elif tag == 'not':
            go(f[1])
        elif tag in BIN:
            go(f[1])
            go(f[2])
        elif tag in ('forall', 'exists'):
            go(f[2])
    go(f)
    return m, clashes


TPTP4X = os.path.join(bridge_mod.REPO, 'tests', 'examples', 'tptp4X_linux')
_PREAMBLE = None


def tptp4x_accepts(b, f, text_):
    """Ground truth for syntax complaints: the repo's own tptp4X on a self-contained problem around the formula."""
    global _PREAMBLE
    if not os.path.exists(TPTP4X):
        return None
    if _PREAMBLE is None:
        _PREAMBLE = str(b.call('preamble')[0])
    m, _ = meaning_of(f)
    decls = []
    for ident, what in sorted(m.items()):
        if what[0] == 'pred':
            ty = '$o' if what[2] == 0 else '(%s) > $o' % ' * '.join(['general'] * what[2])
        elif what[0] == 'sym':
            ty = 'symbol'
        else:
            ty = {'g': 'general', 'i': '$int', 's': 'symbol'}[what[2]]
        decls.append('tff(decl_%d, type, %s: %s).' % (len(decls), ident, ty))
    fv = sorted(free_vars(f))
    pre = ''
    if fv:
        pre = '![%s]: ' % ', '.join('%s_%s: %s' % (n, s, {'g': 'general', 'i': '$int', 's': 'symbol'}[s]) for (n, s) in fv)
    prob = _PREAMBLE + '\n'.join(decls) + '\ntff(f, axiom, %s(%s)).\n' % (pre, text_)
    os.makedirs(driver.OUT, exist_ok=True)
    path = os.path.join(driver.OUT, 'tptp4x_%d.p' % os.getpid())
    with open(path, 'w') as fh:
        fh.write(prob)
    try:
        r = subprocess.run([TPTP4X, path], stdout=subprocess.PIPE, stderr=subprocess.STDOUT, text=True, timeout=30)
        return r.returncode == 0 and 'ERROR' not in r.stdout.upper(), r.stdout[-300:]
    except Exception as e:
        return None
    finally:
        try:
            os.remove(path)
        except OSError:
            pass


def signature_of_violation(f):
    """role key: which construct of the input is involved"""
    def has_chain(f, under):
        tag = f[0]
        if tag == 'cmp':
            return len(f) > 4 and under
        if tag == 'not':
            return has_chain(f[1], True)
        if tag in BIN:
            return has_chain(f[1], True) or has_chain(f[2], True)
        if tag in ('forall', 'exists'):
            return has_chain(f[2], under)
        return False
    if has_chain(f, False):
        return 'chained-comparison-in-context'
    return 'other'


def check_formula(b, item, f, text_, fam):
    base = {'family': fam, 'key': render(f), 'input': ftext(f), 'output': text_, 'twin': item.get('twin', False),
            'nontrivial': True,
            'obligation': 'the TPTP text, read by the TPTP grammar under the standard interpretation of the preamble symbols, has '
                          'the truth value of the source formula in every interpretation and assignment'}
    m, clashes = meaning_of(f)
    try:
        ast = tff.parse_formula(text_)
    except tff.TffError as e:
        r = dict(base)
        ok = tptp4x_accepts(b, f, text_)
        if ok is not None and ok[0]:
            r.update(verdict='observation', detail='reader rejects (%s) but tptp4X accepts: not reported' % e)
            return [r]
        r.update(verdict='violation-concrete', signature='tptp-syntax:' + signature_of_violation(f),
                 detail='not valid TFF: %s%s' % (e, '' if ok is None else ' ; tptp4X: ' + ok[1].strip()[-160:]),
                 replay={'request': render(('tptp_formula', f)), 'expected': render((Q(text_),))})
        return [r]
    wrong = item.get('wrong')

    def build(kw):
        ctx = Ctx(**kw)
        ctx.one_point = False       # keep the source side structurally parallel to the re-read text
        lhs = ctx.cl(f)
        interp = tff.Interp(ctx, m)
        rhs = interp.formula(ast if wrong is None else ('not', ast))
        return ctx.order_axioms() + ctx.symbol_facts(), [(lhs, rhs)]
    try:
        res = driver.solve_equiv(build, item.get('timeout_ms', 5000), ({}, {'abstract_order': True}))
    except tff.TffError as e:
        r = dict(base)
        r.update(verdict='violation-concrete', signature='tptp-typing', detail='cannot be interpreted: %s' % e,
                 replay={'request': render(('tptp_formula', f)), 'expected': render((Q(text_),))})
        return [r]
    r = dict(base)
    r.update(verdict=res['verdict'], ms=res['ms'], vc_size=fol_size(f), queries=res.get('queries'))
    if res['verdict'] == 'sat':
        r['signature'] = 'tptp-meaning:' + signature_of_violation(f)
        r['detail'] = '%s  rendered as  %s ; countermodel: %s' % (ftext(f), text_, driver.model_text(res['model'], 800))
        r['replay'] = {'request': render(('tptp_formula', f)), 'expected': render((Q(text_),)), 'smt2': res['smt2']}
    elif res['verdict'] == 'unknown':
        r['detail'] = res.get('reason')
    return [r]


def check_kernel_item(item):
    from . import mirkernel
    res = mirkernel.check_kernel()
    r = {'family': item['family'], 'key': 'numeral-kernel', 'input': 'Format(&IntegerTerm::Numeral(n)) for every n: isize (MIR slice)',
         'obligation': 'forall n in [-2^63, 2^63): the rendered text denotes n ($uminus(d) = -d; Display of usize/isize prints the value); '
                       '64-bit wrapping semantics of the release profile',
         'nontrivial': True, 'twin': item.get('twin', False), 'ms': res.get('ms'), 'output': res.get('detail')}
    if res['verdict'] == 'not-applicable':
        r.update(verdict='observation', detail='numeral kernel check not applicable to the current code: %s' % res.get('detail'))
    elif res['verdict'] == 'sat':
        n = res['counterexample']
        r.update(verdict='sat', signature='tptp-numeral-kernel', detail='n = %d is rendered as text that does not denote n (%s)' % (n, res.get('detail')),
                 replay={'kernel_counterexample': n, 'smt2': res.get('smt2')})
    else:
        r.update(verdict=res['verdict'], detail=res.get('detail'))
    return [r]


def check_item(item):
    b = bridge_mod.get()
    if item.get('kernel'):
        return check_kernel_item(item)
    if 'strong' in item:
        from .tasks import parse_problems
        l, r_ = item['strong']
        out = []
        seen = set()
        for simp in ('true', 'false'):
            resp = b.call('strong_task', Q(l), Q(r_), Q('tau-star'), Q('universal'), Q('independent'), Q(simp), Q('false'))
            for p in parse_problems(resp[0]):
                for pf in p['formulas']:
                    if pf['formula'] in seen:
                        continue
                    seen.add(pf['formula'])
                    out += check_formula(b, item, pf['formula'], pf['tptp'], 'problem-formulas')
        return out
    if 'external' in item:
        from .c02 import run_task
        from .tasks import parse_problems
        out = []
        seen = set()
        for simp in (True, False):
            req, resp = run_task(b, item['external'], 'universal', 'independent', simp, True)
            if resp[0][:1] == ('refused',):
                continue
            for p in parse_problems(resp[0]):
                for pf in p['formulas']:
                    if pf['formula'] in seen:
                        continue
                    seen.add(pf['formula'])
                    out += check_formula(b, item, pf['formula'], pf['tptp'], 'problem-formulas')
        return out
    f = item['formula']
    req = ('tptp_formula', f)
    try:
        text_ = str(b.call(*req)[0])
    except bridge_mod.BridgePanic as e:
        return [{'family': item['family'], 'key': render(f), 'input': ftext(f), 'verdict': 'violation-concrete',
                 'signature': 'tptp-render-panic', 'detail': 'panic while rendering: %s' % e, 'nontrivial': True,
                 'replay': {'request': render(req), 'expected': render(('panic', str(e)))}}]
    return check_formula(b, item, f, text_, item['family'])


TWINS_EXPECTED = 1


def twins(tier, seed):
    return [{'family': 'twin', 'formula': imp(atom('q', X), cmp(X, '<', num(3))), 'wrong': 'negated'}]


def replay(r):
    rp = r.get('replay') or {}
    if 'kernel_counterexample' in rp:
        # replay against the real build: render q(n) in a fresh bridge process (dev profile) and read the text back
        from .checks_common import fresh_bridge_call
        n = rp['kernel_counterexample']
        try:
            text_ = str(fresh_bridge_call(('tptp_formula', atom('q', num(n))))[0])
        except bridge_mod.BridgePanic as e:
            return True, 'the dev-profile build panics on n=%d: %s (release wraps, as modelled)' % (n, e)
        try:
            ast = tff.parse_formula(text_)
            arg = ast[1][2][0]           # q(f__integer__(<numeral>))
            inner = arg[2][0]
            val = inner[1] if inner[0] == 'num' else (-inner[2][0][1] if inner[1] == '$uminus' and inner[2][0][0] == 'num' else None)
        except Exception:
            val = None
        if val == n:
            return False, 'the dev-profile build renders n=%d correctly as %s' % (n, text_)
        return True, 'rendered as %s' % text_
    return generic_replay(r)


def describe(tier):
    return {
        'rule': 'integer terms: every operator (unary minus, +, -, *) over every leaf kind (variable, 0, positive and negative numeral, placeholder) to depth 1, every depth-2 shape containing a unary minus, the rest of depth 2 seeded; every relation between every pair of 10 terms of all sorts (integer, symbol, general, function constants of the '
                'three sorts, #inf), seeded chains of length 2-4 over 20 terms, every connective/quantifier block over a pool '
                'that contains chained comparisons at depth 1 (exhaustive) and depth 2, chains under every connective, numerals '
                'at the limits of isize, a seeded depth-3+ tail, and every formula of the problems of three strong-equivalence '
                'tasks; one obligation per formula; distinct by formula; all non-trivial',
        'functions': ['formatting::fol::sigma_0::tptp::{Format<Formula>, Format<Comparison>, Format<GeneralTerm>, '
                      'Format<IntegerTerm>, Format<SymbolicTerm>, Format<Atom>, Format<Quantification>, Format<Variable>, '
                      'Format<FunctionConstant>, Format<Relation>}', 'formatting::Precedence::{fmt_unary, fmt_binary}'],
        'bounds': 'formula depth <=2 exhaustive over the pools (3+ seeded), chains of length <=4; integers unbounded in the VC; '
                  'numerals concrete (the printer branches on their sign)',
        'outside': 'formulas beyond the bounds; the TPTP reader (av/tff.py) is written from the TPTP BNF - its syntax complaints '
                   'are only reported when the repo\'s own tptp4X rejects the text as well',
        'assumptions': ['av/tff.py grammar and standard interpretation of the preamble symbols', 'classical semantics of av/sem.py',
                        'z3 verdicts'],
        'trusted_base': ['av/tff.py', 'av/sem.py', 'z3', 'tptp4X (ground truth for syntax)'],
    }
