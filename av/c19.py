"""C19 - simplify, eq-break and decomposition flags never change the claim verified."""
import random

import z3

from . import bridge as bridge_mod
from . import driver
from . import genprog
from .c02 import TASKS as EXT_TASKS, example_tasks, run_task
from .c03 import PROGRAMS
from .checks_common import generic_replay
from .sem import fol_size
from .sexp import Q, render
from .tasks import *

PROPERTY = 'C19'
LEVEL = 'translation_validation'
HARD_TIMEOUT = 300

# programs outside any reference semantics we rely on: unsafe rules, large arithmetic, deep nesting
WILD = [
    'p(X) :- not q(X).', 'p(X * X * X) :- q(X).', 'p(X, Y) :- not q(X), not q(Y), X < Y + 1000000.',
    'p((X / 3) \\ 2) :- q(X). p(X) :- q(X / 0).', 'p(X..Y) :- q(X, Y), not q(Y, X). :- p(X), X > 9223372036854775806.',
    '{p(X)} :- not not p(X). q(X) :- p(X), not p(X + 1).', 'p(-X) :- q(X). p(X - -1) :- q(X).',
    's :- p(X), q(Y), X * Y = 12. s :- not s.',
    'p(X) :- q(X), X = 1..1.', 'p(X) :- q(X), X = 1..X. p(2..2).', 'p(X, Y) :- q(X), q(Y), X <= Y, Y <= X.',
    'p(9223372036854775807 + 1). q(X) :- p(X), X > 9223372036854775807.', 'p(9223372036854775807). q(-9223372036854775808 - 1).',
]
COMBOS = [(dec, s, e) for dec in DECOMPOSITIONS for (s, e) in FLAGS]
BASE = ('independent', False, False)


def strong_examples():
    import glob
    import os
    out = []
    base = os.path.join(bridge_mod.REPO, 'res', 'examples', 'strong_equivalence')
    for d in sorted(glob.glob(os.path.join(base, '*'))):
        lps = sorted(glob.glob(os.path.join(d, '*.lp')))
        if len(lps) >= 2:
            out.append((open(lps[0]).read(), open(lps[1]).read()))
    return out


def generate(tier, seed):
    rnd = random.Random(seed)
    items = []
    pairs = [(a, b) for a in PROGRAMS + WILD for b in PROGRAMS + WILD if a != b]
    rnd.shuffle(pairs)
    chosen = [(WILD[i], WILD[(i + 1) % len(WILD)]) for i in range(len(WILD))] + pairs[:60 if tier == 'quick' else 600]
    many = [('', ':- 1 < 2. :- a = b. :- 3 != 3.'), (':- 1 < 2. :- a = b.', ''), ('p. q. r. s.', 'p :- q. q :- r. r :- s. s.'), ('p(X) :- q(X). q(X) :- r(X). r(1). r(2).', 'p(X) :- r(X). q(X) :- r(X). r(1..2). :- p(3).'),
            ('a. b :- a. c :- b. d :- c. e :- d.', 'e. d :- e. c :- d. b :- c. a :- b.')]
    generated = genprog.pairs(seed + 3, 8 if tier == 'quick' else 150)
    for (l, r) in many + chosen + generated + strong_examples():
        for rep in ('tau-star', 'mu'):
            for d in ('forward', 'backward'):
                items.append({'family': 'strong', 'kind': 'strong', 'left': l, 'right': r, 'rep': rep, 'direction': d,
                              'label': 'strong %s || %s [%s %s]' % (l[:60], r[:60], rep, d)})
    ext = list(EXT_TASKS) + (example_tasks() if tier == 'thorough' else example_tasks()[:4])
    for t in ext:
        for d in ('forward', 'backward'):
            items.append({'family': 'external', 'kind': 'external', 'task': t, 'direction': d,
                          'label': 'external %s [%s]' % (t[0], d)})
    return items


def problems_for(b, item, dec, simp, eqb):
    if item['kind'] == 'strong':
        req = ('strong_task', Q(item['left']), Q(item['right']), Q(item['rep']), Q(item['direction']), Q(dec),
               Q(str(simp).lower()), Q(str(eqb).lower()))
        resp = b.call(*req, timeout=120)
        return req, resp, parse_problems(resp[0])
    req, resp = run_task(b, item['task'], item['direction'], dec, simp, eqb)
    if resp[0][:1] == ('refused',):
        return req, resp, None
    return req, resp, [p for p in parse_problems(resp[0]) if '_outline_' not in p['name']]


def check_item(item):
    b = bridge_mod.get()
    base = {'family': item['family'], 'input_key': item['label'], 'twin': item.get('twin', False)}
    out = []
    try:
        req0, resp0, base_probs = problems_for(b, item, *BASE)
    except (bridge_mod.BridgePanic, bridge_mod.BridgeTimeout) as e:
        r = dict(base)
        r.update(key=item['label'], input=item['label'], verdict='observation', detail='baseline not available: %s' % e)
        return [r]
    if base_probs is None:
        r = dict(base)
        r.update(key=item['label'], input=item['label'], verdict='skipped', detail='task refused')
        return [r]
    seen = {problems_key(base_probs): 'unsat'}
    for combo in COMBOS:
        if combo == BASE and not item.get('twin'):
            continue
        dec, simp, eqb = combo
        label = '%s  vs [%s simplify=%s eq-break=%s]' % (item['label'], dec, simp, eqb)
        r = dict(base)
        r.update(key=label, input=label,
                 obligation='forall I: I refutes a problem of this family <-> I refutes a problem of the baseline family '
                            '(independent, no simplification, no equivalence breaking)')
        try:
            req, resp, probs = problems_for(b, item, dec, simp, eqb)
        except bridge_mod.BridgePanic as e:
            r.update(verdict='violation-concrete', signature='flag-combination-panic', detail='panic: %s' % e,
                     replay={'request': '', 'expected': ''})
            out.append(r)
            continue
        except bridge_mod.BridgeTimeout:
            r.update(verdict='observation', detail='task assembly did not finish')
            out.append(r)
            continue
        if probs is None:
            r.update(verdict='violation-concrete', signature='flag-combination-refused',
                     detail='refused under this combination but accepted under the baseline',
                     replay={'request': render(req), 'expected': render(resp)})
            out.append(r)
            continue
        if item.get('twin_mode') == 'drop-problem':
            probs = probs[:-1]
        r['output'] = '%d problems (baseline %d)' % (len(probs), len(base_probs))
        key = problems_key(probs)
        if key in seen and not item.get('twin'):
            v = seen[key]
            r.update(verdict='held-concrete' if v == 'unsat' else 'dup-' + v, nontrivial=False,
                     detail='identical problem family' if v == 'unsat' else 'same problems as an earlier combination')
            out.append(r)
            continue
        aliases = symbol_aliases(probs + base_probs, (item['left'], item['right']) if item['kind'] == 'strong' else item['task'][2:5])

        def build(kw, probs=probs):
            ctx = AliasCtx(aliases, **kw)
            return ctx.order_axioms() + ctx.symbol_facts(), [(refutation(ctx, probs), refutation(ctx, base_probs))]
        res = driver.solve_equiv(build, item.get('timeout_ms', 8000),
                                 ({}, {'relativize_int': True}, {'abstract_order': True}))
        seen[key] = res['verdict']
        r.update(verdict=res['verdict'], ms=res['ms'], nontrivial=True, queries=res.get('queries'),
                 vc_size=sum(fol_size(f['formula']) for p in probs + base_probs for f in p['formulas']))
        if res['verdict'] == 'sat':
            r['signature'] = 'flags-change-claim:%s' % ('simplify' if simp else '') + ('+eq-break' if eqb else '') + ':' + dec
            r['detail'] = 'this family: %s ;; baseline: %s ;; countermodel: %s' % (
                ' | '.join('; '.join('%s %s' % (f['role'], f['tptp']) for f in p['formulas']) for p in probs)[:700],
                ' | '.join('; '.join('%s %s' % (f['role'], f['tptp']) for f in p['formulas']) for p in base_probs)[:700],
                driver.model_text(res['model'], 800))
            r['replay'] = {'request': render(req), 'expected': render(resp), 'smt2': res['smt2']}
        elif res['verdict'] == 'unknown':
            r['detail'] = res.get('reason')
        out.append(r)
    if item.get('twin'):
        return [r for r in out if r.get('verdict') in ('sat', 'unsat', 'unknown')][:1]
    return out


TWINS_EXPECTED = 1


def twins(tier, seed):
    # dropping one problem of a family must change the refutation condition (every conjecture of this task is refutable
    # on its own, so it does not matter which problem happens to come last)
    return [{'family': 'twin', 'kind': 'strong', 'left': 'p :- q.', 'right': 'r :- q. s :- q. t :- q.', 'rep': 'tau-star',
             'direction': 'forward', 'label': 'twin', 'twin_mode': 'drop-problem'}]


def replay(r):
    return generic_replay(r)


def describe(tier):
    return {
        'rule': 'strong-equivalence tasks (grammar-generated pairs from av/genprog.py; pairs from the C03 pool extended by 8 programs outside the reference fragment: '
                'unsafe rules, large arithmetic, division by zero, isize-boundary numerals; the repo\'s strong examples; both '
                'formula representations) and external-equivalence tasks (the C02 corpus, repo examples), per direction; for '
                'each, the 7 non-baseline combinations of decomposition x simplify x eq-break are compared with the baseline; '
                'one obligation per (task, direction, combination); non-trivial = the problem family differs from the baseline '
                'and from earlier combinations',
        'functions': ['verifying::problem::{decompose_independent, decompose_sequential}', 'breaking::fol::sigma_0::ht::*',
                      'simplifying portfolios under apply_fixpoint inside StrongEquivalenceTask/ExternalEquivalenceTask::decompose'],
        'bounds': 'the listed tasks; all classical interpretations solver-quantified; integers unbounded',
        'outside': 'tasks beyond the corpus; unknown solver answers (large examples)',
        'assumptions': ['classical semantics of av/sem.py for the emitted formulas', 'z3 verdicts'],
        'trusted_base': ['av/sem.py', 'av/tasks.py refutation()', 'z3'],
    }
