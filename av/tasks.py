"""Shared helpers for the task-level checks (C02, C03, C09, C12, C13, C19)."""
import re

import z3

from .sem import Ctx, fol_preds
from .sexp import Q

DIRECTIONS = ('universal', 'forward', 'backward')
DECOMPOSITIONS = ('independent', 'sequential')
FLAGS = [(s, e) for s in (True, False) for e in (True, False)]


def parse_problems(payload):
    """bridge (problem name ((pf name role formula tptp)...) text) -> dicts"""
    out = []
    for p in payload:
        forms = [{'name': str(f[1]), 'role': f[2], 'formula': f[3], 'tptp': str(f[4])} for f in p[2]]
        out.append({'name': str(p[1]), 'formulas': forms, 'text': str(p[3])})
    return out


def direction_of(problem):
    n = problem['name']
    if n.startswith('forward'):
        return 'forward'
    if n.startswith('backward'):
        return 'backward'
    return None


def _symbols_of(t, acc):
    if isinstance(t, tuple):
        if len(t) == 2 and t[0] == 'sym':
            acc.add(str(t[1]))
            return
        for x in t:
            _symbols_of(x, acc)


def input_names(*texts):
    """every lower-case identifier written anywhere in the task (a superset of its symbolic constants)"""
    return set(re.findall(r'[a-z_][A-Za-z0-9_]*', ' '.join(t for t in texts if t)))


def _rename_symbols(t, table):
    if isinstance(t, tuple):
        if len(t) == 2 and t[0] == 'sym':
            n = str(t[1])
            return ('sym', Q(table[n])) if n in table else t
        return tuple(_rename_symbols(x, table) for x in t)
    return t


def symbol_readings(used, names):
    """Candidate readings of the symbolic constants a problem uses (`used`) as constants of the task (`names`: every
    identifier written in the task), *without restating anthem's renaming rule*. A reading maps every emitted constant to
    a task name so that (1) a constant that is not written in the task is a renamed one, <original><suffix> with one
    suffix for the whole problem, (2) no two emitted constants are read as the same task constant - so when the original
    of a renamed constant is itself among the emitted constants, that one must be a renamed constant too (and so on).
    Returned in order of preference: forced renamings with the shortest suffix first; the identity reading (every constant
    stands for itself) when nothing forces a renaming. An empty list means that no consistent reading exists."""
    used = sorted(used)
    forced = [d for d in used if d not in names]
    if not forced:
        out = [{}]
        # an unforced renaming is still possible (all emitted names happen to be written in the task): offer it as well
        suffixes = sorted({d[len(c):] for d in used for c in names if d != c and d.startswith(c) and c not in used
                           and d[len(c)] == '_'}, key=len)      # (a renaming suffix is assumed to start with an underscore)
    else:
        out = []
        suffixes = sorted({d[len(c):] for d in forced for c in names if d.startswith(c) and d != c}, key=len)
    for suf in suffixes:
        table, todo, ok = {}, list(forced) if forced else [d for d in used if d.endswith(suf) and d[:-len(suf)] in names
                                                               and d[:-len(suf)] not in used], True
        if not todo:
            continue
        while todo and ok:
            d = todo.pop()
            if d in table:
                continue
            if not d.endswith(suf) or d[:-len(suf)] not in names:
                ok = False
                break
            table[d] = d[:-len(suf)]
            if table[d] in used and table[d] not in table:
                todo.append(table[d])
        if ok and len(set(table.get(d, d) for d in used)) == len(used) and table not in out:
            out.append(table)
    return out


def normalize_symbols(problems, texts):
    """Undo anthem's renaming of symbolic constants per problem, reading the emitted constants off the task text
    (symbol_readings, first - preferred - reading). Two emitted constants are never read as one: if anthem splits one
    input constant in two, or merges two, the obligations see it. Rewrites the formulas in place; returns the tables."""
    names = input_names(*texts)
    tables = []
    for p in problems:
        used = set()
        for f in p['formulas']:
            _symbols_of(f['formula'], used)
        readings = symbol_readings(used, names)
        table = readings[0] if readings else {}
        if table:
            for f in p['formulas']:
                f['formula'] = _rename_symbols(f['formula'], table)
        tables.append(table)
    return tables


def symbol_aliases(problems, texts=None):
    """With the task's texts: normalise the problems in place (see normalize_symbols) and return no aliases. Without
    them (legacy): anthem's documented rule, <name>__s stands for <name> when <name>/0 is a predicate."""
    if texts is not None:
        normalize_symbols(problems, texts)
        return {}
    zero = set()
    for p in problems:
        for f in p['formulas']:
            zero |= {n for (n, a) in fol_preds(f['formula']) if a == 0}
    return {z + '__s': z for z in zero}


def _asp_constants(t, acc):
    if isinstance(t, tuple):
        if len(t) == 2 and t[0] == 'psym':
            acc.add(str(t[1]))
            return
        for x in t:
            _asp_constants(x, acc)


def renamed_symbol_collisions(problems, program_trees):
    """Causal attribution for one known defect: a symbolic constant c that anthem renamed (c no longer occurs as a constant
    in the problem) to c__s while c__s is *itself* a constant of the input programs - two distinct input constants now
    share one TFF constant. Returns the list of such c__s (empty when the defect cannot be involved)."""
    consts = set()
    for t in program_trees:
        _asp_constants(t, consts)
    hits = set()
    for p in problems:
        used = set()
        for f in p['formulas']:
            _symbols_of(f['formula'], used)
        for d in used:
            if d.endswith('__s') and d in consts and d[:-3] in consts and d[:-3] not in used:
                hits.add(d)
    return sorted(hits)


class AliasCtx(Ctx):
    def __init__(self, aliases=None, **kw):
        super().__init__(**kw)
        self.aliases = aliases or {}

    def symbol(self, name):
        name = str(name)
        return super().symbol(self.aliases.get(name, name))


def refutation(ctx, problems, predmap=None):
    """Ref(I): I makes all axioms of some problem true and its conjecture false."""
    alts = []
    for p in problems:
        ax = [ctx.cl(f['formula'], predmap=predmap) for f in p['formulas'] if f['role'] == 'axiom']
        cj = [ctx.cl(f['formula'], predmap=predmap) for f in p['formulas'] if f['role'] == 'conjecture']
        alts.append(z3.And(*(ax + [z3.Not(z3.And(*cj))])))
    return z3.Or(*alts) if alts else z3.BoolVal(False)


def problems_key(problems):
    return tuple((p['name'], tuple((f['role'], f['formula']) for f in p['formulas'])) for p in problems)


def well_formed(problems):
    """Concrete structural facts used by several checks: exactly one conjecture per problem, unique names."""
    issues = []
    for p in problems:
        nc = sum(1 for f in p['formulas'] if f['role'] == 'conjecture')
        if nc != 1:
            issues.append('%s has %d conjectures' % (p['name'], nc))
        names = [f['name'] for f in p['formulas']]
        if len(set(names)) != len(names):
            issues.append('%s has duplicate formula names' % p['name'])
    pn = [p['name'] for p in problems]
    if len(set(pn)) != len(pn):
        issues.append('duplicate problem names %s' % pn)
    return issues
