"""C17 - substitution of a term for a variable never captures variables."""
import itertools
import random

import z3

from . import bridge as bridge_mod
from . import driver
from .checks_common import generic_replay
from .fol import *
from .sem import Ctx, fol_size, free_vars, term_vars
from .sexp import Q, render

PROPERTY = 'C17'
LEVEL = 'translation_validation'

VARS = [('X', 'g'), ('X1', 'g'), ('X', 'i'), ('X1', 'i'), ('Y', 'g'), ('Y', 'i'), ('X2', 'g'), ('X11', 'i'),
        ('X', 's'), ('Y1', 'g')]
CORE = VARS[:5]


def vterm(v):
    n, s = v
    return {'g': gvar, 'i': ivar, 's': svar}[s](n)


TERMS_G = [gvar('Y'), gvar('X'), gvar('X1'), add(ivar('X'), num(1)), mul(ivar('Y'), ivar('X')), ivar('X1'),
           num(5), sym('a'), INF, gvar('X2'), svar('X'), add(ivar('X1'), ivar('X11')), gvar('Y1')]
TERMS_I = [ivar('Y'), ivar('X'), ivar('X1'), add(ivar('X'), num(1)), mul(ivar('Y'), ivar('X')), num(5),
           add(ivar('X1'), ivar('X11')), ineg(ivar('X1')), sub(ivar('X'), ivar('X1'))]
TERMS_S = [svar('X'), svar('Y'), sym('a')]


def terms_for(sort):
    return {'g': TERMS_G, 'i': TERMS_I, 's': TERMS_S}[sort]


def compound(rnd, pool, d=2):
    """an integer term over the integer variables of the pool"""
    ints = [v for v in pool if v[1] == 'i'] or [('X', 'i')]
    if d == 0 or rnd.random() < 0.3:
        return ivar(rnd.choice(ints)[0]) if rnd.random() < 0.8 else num(rnd.choice([0, 1, -3]))
    k = rnd.randrange(4)
    if k == 0:
        return ineg(compound(rnd, pool, d - 1))
    return (['add', 'sub', 'mul'][k - 1], compound(rnd, pool, d - 1), compound(rnd, pool, d - 1))


def rand_atom(rnd, pool):
    if rnd.random() < 0.35:
        k = rnd.randrange(4)
        if k == 0:
            return atom('p', compound(rnd, pool), vterm(rnd.choice(pool)))
        if k == 1:
            return atom('t', vterm(rnd.choice(pool)), compound(rnd, pool), compound(rnd, pool))
        if k == 2:
            return cmp(compound(rnd, pool), rnd.choice(['=', '<', '>=']), vterm(rnd.choice(pool)), rnd.choice(['<', '!=']), compound(rnd, pool),
                       '<=', vterm(rnd.choice(pool)))
        return cmp(vterm(rnd.choice(pool)), '<', vterm(rnd.choice(pool)), '<', vterm(rnd.choice(pool)), '<', vterm(rnd.choice(pool)))
    k = rnd.randrange(4)
    a, b = vterm(rnd.choice(pool)), vterm(rnd.choice(pool))
    if k == 0:
        return atom('p', a, b)
    if k == 1:
        return cmp(a, rnd.choice(['=', '<', '!=']), b)
    if k == 2:
        return atom('q', a)
    return cmp(a, '<=', b, '<', vterm(rnd.choice(pool)))


def rand_formula(rnd, d, pool):
    if d == 0:
        return rand_atom(rnd, pool)
    k = rnd.randrange(6)
    if k <= 2:
        n = rnd.choice([1, 1, 2, 2, 3])
        vs = [rnd.choice(pool) for _ in range(n)]
        return (rnd.choice(['forall', 'exists']), tuple(var(*v) for v in vs), rand_formula(rnd, d - 1, pool))
    if k == 3:
        return neg(rand_formula(rnd, d - 1, pool))
    return (rnd.choice(BIN), rand_formula(rnd, d - 1, pool), rand_formula(rnd, rnd.randrange(d), pool))


def generate(tier, seed):
    rnd = random.Random(seed)
    items = []
    # exhaustive: one binder over one binary atom, core variable pool
    for q in ('forall', 'exists'):
        for b in CORE:
            for v1, v2 in itertools.product(CORE, CORE):
                f = (q, (var(*b),), atom('p', vterm(v1), vterm(v2)))
                for x in CORE[:4]:
                    for t in terms_for(x[1])[:7]:
                        items.append({'family': 'one-binder-exhaustive', 'formula': f, 'var': x, 'term': t})
    # the same capture situations at every sort: the substituted variable, the binder and the variable of the term share a sort
    for s_ in 'gis':
        mk = {'g': gvar, 'i': ivar, 's': svar}[s_]
        for q in ('forall', 'exists'):
            for body in (atom('p', mk('X'), mk('Y')), conj(atom('p', mk('X'), mk('Y')), atom('q', mk('Y1'))), cmp(mk('X'), '!=', mk('Y')),
                         neg(atom('p', mk('Y'), mk('X')))):
                for bs in ([var('Y', s_)], [var('Y', s_), var('Y1', s_)], [var('Y1', s_), var('Y', s_)], [var('Y', s_), var('X', 'g' if s_ != 'g' else 'i')]):
                    f = (q, tuple(bs), body)
                    for t in (mk('Y'), mk('Y1'), mk('X')):
                        items.append({'family': 'same-sort-capture', 'formula': f, 'var': ('X', s_), 'term': t})
                    items.append({'family': 'same-sort-capture', 'formula': ('exists', (var('Z', s_),), conj(f, atom('q', mk('Z')))),
                                  'var': ('X', s_), 'term': mk('Y')})
    # two binders in one block / nested blocks, adversarial names
    for q in ('forall', 'exists'):
        for b1, b2 in itertools.product(VARS[:6], VARS[:6]):
            body = conj(atom('p', vterm(b1), vterm(b2)), atom('p', vterm(('X1', 'g')), vterm(('X', 'i'))))
            f1 = (q, (var(*b1), var(*b2)), body)
            f2 = (q, (var(*b1),), ('exists', (var(*b2),), body))
            for x in (('X1', 'g'), ('X', 'i'), ('X', 'g'), ('X1', 'i')):
                for t in terms_for(x[1])[:6]:
                    items.append({'family': 'two-binders', 'formula': f1, 'var': x, 'term': t})
                    items.append({'family': 'nested-binders', 'formula': f2, 'var': x, 'term': t})
    # term-level substitution: every position of compound integer terms, chains of length 1..4, atoms of arity 1..3
    XI_, YI_ = ivar('X'), ivar('Y')
    positions = [XI_, ineg(XI_), add(XI_, YI_), add(YI_, XI_), sub(YI_, XI_), mul(YI_, XI_), ineg(add(YI_, XI_)), add(YI_, ineg(XI_)),
                 mul(add(YI_, num(1)), sub(num(2), XI_)), sub(sub(YI_, num(1)), mul(num(3), ineg(XI_)))]
    for tpos in positions:
        shapes = [atom('q', tpos), atom('p', YI_, tpos), atom('t', YI_, gvar('X'), tpos), atom('t', tpos, YI_, svar('X')),
                  atom('t', XI_, tpos, add(XI_, num(1))), atom('p', tpos, tpos), cmp(XI_, '<', tpos, '<=', XI_, '!=', tpos),
                  cmp(tpos, '<', YI_), cmp(YI_, '<=', tpos), cmp(YI_, '<', num(1), '<', tpos), cmp(YI_, '<', tpos, '<', num(9), '!=', gvar('X')),
                  cmp(num(0), '<=', YI_, '<', num(7), '<=', gvar('Y'), '!=', tpos)]
        for f0 in shapes:
            for f in (f0, exists([var('Y', 'i')], f0), forall([var('X')], conj(f0, atom('q', gvar('X'))))):
                for t in (num(5), add(ivar('Z'), num(1))):
                    items.append({'family': 'term-positions', 'formula': f, 'var': ('X', 'i'), 'term': t})
                for t in (gvar('Z'), ivar('X')):
                    items.append({'family': 'term-positions', 'formula': f, 'var': ('X', 'g'), 'term': t})
                items.append({'family': 'term-positions', 'formula': f, 'var': ('X', 's'), 'term': sym('a')})
    # several binders of one block need renaming at once: the term mentions two or three block variables
    blockvars = [('X', 'i'), ('X1', 'i'), ('X2', 'i'), ('X11', 'i'), ('X', 'g'), ('X1', 'g')]
    multi_terms = [add(ivar('X'), ivar('X1')), sub(ivar('X1'), ivar('X')), add(ivar('X1'), ivar('X11')),
                   mul(ivar('X'), add(ivar('X1'), ivar('X2'))), add(add(ivar('X'), ivar('X1')), ivar('X11')),
                   add(ivar('X2'), ivar('X1'))]
    for q in ('forall', 'exists'):
        for k in (2, 3):
            for bs in itertools.permutations(blockvars, k):
                body = conj(atom('p', vterm(bs[0]), vterm(bs[-1])), cmp(vterm(bs[1]), '<', ivar('Z')))
                f = (q, tuple(var(*b) for b in bs), body)
                for t in multi_terms:
                    items.append({'family': 'multi-rename', 'formula': f, 'var': ('Z', 'i'), 'term': t})
    # fresh-name candidates already taken (free, bound deeper, in the term)
    for x, t in [(('Z', 'g'), gvar('X')), (('Z', 'i'), add(ivar('X'), ivar('X1'))), (('X1', 'i'), add(ivar('X'), num(1))),
                 (('X1', 'g'), gvar('X')), (('Z', 'g'), add(ivar('X'), ivar('X2')))]:
        for inner in [atom('p', gvar('X'), gvar('X1')), exists([var('X1')], atom('p', gvar('X'), gvar('X1'))),
                      forall([var('X1', 'i')], atom('p', ivar('X'), ivar('X1'))), atom('p', ivar('X'), gvar('Z')),
                      atom('p', ivar('X'), ivar('Z')), exists([var('X2')], atom('p', gvar('X'), gvar('X2'))),
                      conj(atom('p', ivar('X'), ivar('X1')), atom('q', ivar('X2')))]:
            for bs in ([var('X')], [var('X', 'i')], [var('X'), var('X', 'i')], [var('X', 'i'), var('X1', 'i')],
                       [var('X'), var('X1'), var('X2')]):
                f = exists(bs, conj(inner, atom('r', vterm(x))))
                items.append({'family': 'fresh-name-taken', 'formula': f, 'var': x, 'term': t})
                items.append({'family': 'fresh-name-taken', 'formula': exists(bs, inner), 'var': x, 'term': t})
    # seeded random tail
    n = 3000 if tier == 'quick' else 200000
    for _ in range(n):
        pool = VARS if rnd.random() < 0.5 else CORE
        f = rand_formula(rnd, rnd.choice([1, 2, 2, 3]), pool)
        x = rnd.choice(pool)
        t = rnd.choice(terms_for(x[1]))
        items.append({'family': 'seeded-depth<=3', 'formula': f, 'var': x, 'term': t})
    return items


def tvalue(ctx, sort, t):
    return {'g': ctx.gterm, 'i': ctx.iterm, 's': ctx.sterm}[sort](t, {})


def check_item(item):
    b = bridge_mod.get()
    f, x, t = item['formula'], item['var'], item['term']
    req = ('substitute', f, (Q(x[0]), x[1]), t)
    inp = '(%s)[%s$%s := %s]' % (text(f), x[0], x[1], term_text(t))
    base = {'family': item['family'], 'key': render(req), 'input': inp, 'twin': item.get('twin', False),
            'nontrivial': (x[0], x[1]) in free_vars(f) and depth(f) >= 1}
    try:
        g = b.call(*req)[0]
    except bridge_mod.BridgePanic as e:
        r = dict(base)
        r.update(verdict='violation-concrete', signature='substitute-panic', detail='panic: %s' % e,
                 replay={'request': render(req), 'expected': render(('panic', str(e)))})
        return [r]
    base['output'] = text(g)
    out = []
    # (b) free variables
    fv_f = free_vars(f)
    xv = (x[0], x[1])
    expect = (fv_f - {xv}) | (term_vars(t, set()) if xv in fv_f else set())
    got = free_vars(g)
    r = dict(base)
    r['obligation'] = 'FV(F[x:=t]) = (FV(F) - {x}) + (FV(t) if x in FV(F))'
    if got == expect:
        r.update(verdict='held-concrete')
    else:
        r.update(verdict='violation-concrete', signature='substitute-free-variables',
                 detail='free variables %s, expected %s' % (sorted(got), sorted(expect)),
                 replay={'request': render(req), 'expected': render((g,))})
    out.append(r)
    # (a) semantic: cl / ht at both worlds
    xv_env = xv
    wrong = item.get('wrong')

    def build(kw):
        ctx = Ctx(**kw)
        tv = tvalue(ctx, x[1], t)
        env = {xv_env: tv}
        goals = []
        for w in ('h', 't'):
            lhs = ctx.ht(g, w)
            rhs = ctx.ht(f, w, env=({} if wrong == 'no-assign' else env))
            goals.append(lhs != rhs)
        preds = [('p', 2), ('q', 1), ('r', 1), ('t', 3)]
        side = ctx.order_axioms() + ctx.subset_conditions(preds) + ctx.symbol_facts()
        return side + [z3.Or(*goals)]
    res = driver.solve_ladder(build, item.get('timeout_ms', 10000))
    r = dict(base)
    r['obligation'] = 'forall H<=T, assignment, w in {h,t}: ht(F[x:=t], w) <-> ht(F, w)[x -> value of t]'
    r.update(verdict=res['verdict'], ms=res['ms'], vc_size=fol_size(f) + fol_size(g))
    r['key'] = base['key'] + '#sem'
    r['input_key'] = base['key']
    out[0]['input_key'] = base['key']
    if res['verdict'] == 'sat':
        r['signature'] = 'substitute-meaning'
        r['detail'] = 'result %s ; countermodel: %s' % (text(g), driver.model_text(res['model'], 1200))
        r['replay'] = {'request': render(req), 'expected': render((g,)), 'smt2': res['smt2']}
    elif res['verdict'] == 'unknown':
        r['detail'] = res.get('reason')
    out.append(r)
    if item.get('twin'):
        return [r]
    return out


TWINS_EXPECTED = 2


def twins(tier, seed):
    # a wrong reference (assignment ignored) must be refuted
    return [
        {'family': 'twin', 'formula': atom('q', gvar('X')), 'var': ('X', 'g'), 'term': gvar('Y'), 'wrong': 'no-assign'},
        {'family': 'twin', 'formula': exists([var('Y')], atom('p', gvar('X'), gvar('Y'))), 'var': ('X', 'g'),
         'term': num(5), 'wrong': 'no-assign'},
    ]


def replay(r):
    return generic_replay(r)


def describe(tier):
    return {
        'rule': '(formula, variable, term) triples: one binder over a binary atom exhaustively over a 5-variable pool '
                '(names X, X1, Y at sorts g/i), two-variable blocks and nested blocks over a 6-variable pool, '
                'fresh-name-taken shapes, plus a seeded random tail of depth<=3; only sort-compatible triples. Two '
                'obligations per triple (free-variable equation, meaning). Distinct by request S-expression; '
                'non-trivial = the variable is free in the formula and the formula has a binder/connective',
        'functions': ['syntax_tree::fol::sigma_0::{Formula,AtomicFormula,Atom,Comparison,GeneralTerm,IntegerTerm,'
                      'SymbolicTerm}::substitute', 'Variable::sequence', 'Formula::free_variables', 'Formula::quantify'],
        'bounds': 'formula depth <=3, binder blocks <=3 variables, terms of operator depth <=1, variable names from a '
                  'fixed adversarial pool; integers unbounded; interpretations and assignments solver-quantified',
        'outside': 'sort-incompatible triples (documented panic), deeper formulas/terms, unknown solver answers',
        'assumptions': ['reference HT/classical semantics of av/sem.py', 'free-variable function of av/sem.py',
                        'z3 verdicts; counterexamples re-decided by z3 4.8.12 and cvc5'],
        'trusted_base': ['av/sem.py', 'z3'],
    }
