"""C03 - strong-equivalence obligations are refuted exactly by HT-distinguishing pairs."""
import itertools
import random

import z3

from . import bridge as bridge_mod
from . import cliagree
from . import driver
from . import genprog
from .checks_common import generic_replay
from .fol import atom, gvar
from .sem import asp_preds, fol_size
from .sexp import Q, render
from .tasks import *

PROPERTY = 'C03'
LEVEL = 'translation_validation'

PROGRAMS = [
    'p :- q.', 'p :- not not q.', 'p :- q. p :- not q.', 'p. q :- p.', '{p}. q :- p.', 'p :- not q. q :- not p.',
    'p(X) :- q(X).', 'p(X) :- q(X), not r(X, X).', 'p(X + 1) :- q(X).', 'p(X) :- q(X - 1).', '{p(X)} :- q(X).',
    'p(X) :- q(X), X > 1.', 'p(1..3).', 'p(1). p(2). p(3).', ':- p(X), q(X).', ':- q(X), p(X).',
    'p(X) :- q(X). p(X) :- r(X, Y).', 'p(X) :- r(X, Y), q(Y), X != Y.', 'p(a). q(b) :- p(a).', 'p :- q, not s. s :- p.',
    'p(X) :- X = 1..3, not q(X).', 'p(X / 2) :- q(X).', 'q(X) :- p(X). {p(1..2)}.', 'p(X, Y) :- q(X), q(Y), X < Y.',
    's :- p(a), not q(a). p(a) :- s.', 'p(a) :- s, a < s1. s.',
]


def generate(tier, seed):
    rnd = random.Random(seed)
    pairs = [(a, b) for a in PROGRAMS for b in PROGRAMS]
    rnd.shuffle(pairs)
    fixed = [('p :- q.', 'p :- not not q.'), ('p(1..3).', 'p(1). p(2). p(3).'), (':- p(X), q(X).', ':- q(X), p(X).'),
             ('p(X + 1) :- q(X).', 'p(X) :- q(X - 1).'), ('p :- q. p :- not q.', 'p.' if False else 'p :- q.'),
             ('p(a). q(b) :- p(a).', 'p(a) :- s, a < s1. s.'), ('', ':- 1 < 2. :- a = b. :- 3 != 3.'), (':- 1 < 2. :- a = b.', ''),
             ('p. q. r. s.', 'p :- q. q :- r. r :- s. s.'),
             # a name used both as a propositional atom and as a symbolic constant, in one program or in both; constants
             # named like the here/there copies of a propositional atom (the names anthem renames), true and false claims
             ('p(a). :- a, not a.', 'p(a).'), ('q :- a0 < a. :- a, not a.', 'q.'), ('p(a) :- a.', 'p(a) :- a, not not a.'),
             ('q :- s, hs < hs0.', 'q :- s.'), ('q :- s, ts = ts.', 'q :- s, hs != ts.'), ('p(hs) :- s.', 'p(ts) :- s.'),
             ('q(hs, ts) :- s.', 'q(hs, ts) :- s, hs < ts.'),
             # variables named like tau*'s fresh variables that occur only below a unary minus / only in one literal
             ('p(Z) :- q(-Z).', 'p(X) :- q(0).'), ('p(Z) :- q(-Z).', 'p(X) :- q(-X).'), ('p(Z1) :- q(X, -Z1), X < -Z.', 'p(Y) :- q(X, -Y), X < -Z.'),
             ('p(V1) :- q(-V1).', 'p(X) :- q(-X).'), ('p :- q(-X).', 'p :- q(Y), Y = -X.'),
             # program variables V<n> with different digit counts
             ('p(V9) :- q(V9, V10).', 'p(X) :- q(X, X).'), ('p(V9) :- q(V9, V10).', 'p(X) :- q(X, Y).'), ('p(V99, X) :- q(V99, V100, X).', 'p(A, B) :- q(A, C, B).'),
             # ... and a constant that already carries the name the renaming would pick (they were merged until fix 7c0d6c6)
             ('q :- s, hs__s = hs.', 'q :- s.'), ('q :- s, hs__s != hs.', 'q :- s.')]
    n = 150 if tier == 'quick' else 676
    items = []
    for (l, r) in fixed + pairs[:n]:
        items.append({'family': 'pairs', 'left': l, 'right': r})
    # grammar-generated programs over a confusable name pool, paired with a variant (equivalent or not) of themselves
    for (l, r) in genprog.pairs(seed, 40 if tier == 'quick' else 1500):
        items.append({'family': 'generated', 'left': l, 'right': r})
    for (l, r) in [('p :- q.', 'p :- not not q.'), ('p(X) :- q(X), not r(X, X).', 'p(X + 1) :- q(X).'), ('{p(X)} :- q(X).', ':- p(X), q(X).'),
                   ('p(a). q(b) :- p(a).', 'p(a) :- s, a < s1. s.'), ('p(1..3).', 'p(X) :- X = 1..3, not q(X).'), ('', 'p.')]:
        items.append({'family': 'cli-agreement', 'left': l, 'right': r, 'cli': True})
    return items


_COPY = {}


def copy_names(b, name, arity):
    k = (name, arity)
    if k not in _COPY:
        a = atom(name, *[gvar('X%d' % i) for i in range(arity)])
        _COPY[k] = (str(b.call('here', a)[0][1]), str(b.call('there', a)[0][1]))
    return _COPY[k]


def flags_of(direction, dec, simp, eqb, rep=None):
    fl = ['--direction', direction, '--decomposition', dec]
    if rep:
        fl += ['--formula-representation', rep]
    if not simp:
        fl.append('--no-simplify')
    if not eqb:
        fl.append('--no-eq-break')
    return fl


def check_cli(b, item):
    left, right = item['left'], item['right']
    out = []
    for rep, direction, dec, simp, eqb in (('tau-star', 'universal', 'sequential', True, True), ('mu', 'forward', 'independent', False, False),
                                           ('tau-star', 'backward', 'sequential', True, False), ('mu', 'universal', 'independent', True, True)):
        req = ('strong_task', Q(left), Q(right), Q(rep), Q(direction), Q(dec), Q(str(simp).lower()), Q(str(eqb).lower()))
        # file names whose alphabetical order is the reverse of the argument order
        r = cliagree.verify(b, item['family'], '%s||%s#%s-%s-%s-%s-%s' % (left, right, rep, direction, dec, simp, eqb), 'strong',
                            {'zz_first.lp': left + '\n', 'aa_second.lp': right + '\n'}, ['zz_first.lp', 'aa_second.lp'], req,
                            flags_of(direction, dec, simp, eqb, rep))
        out.append(r)
    return out


def check_item(item):
    b = bridge_mod.get()
    if item.get('cli'):
        return check_cli(b, item)
    left, right = item['left'], item['right']
    lp = b.call('parse_program', Q(left))[0]
    rp = b.call('parse_program', Q(right))[0]
    preds = sorted(asp_preds(lp) | asp_preds(rp))
    copies = {p: copy_names(b, *p) for p in preds}
    table = {}
    for (name, arity), (hn, tn) in copies.items():
        table[(hn, arity)] = (name, arity, 'h')
        table[(tn, arity)] = (name, arity, 't')
    out = []
    seen = {}
    configs = [(rep, d, dec, s, e) for rep in ('tau-star', 'mu') for d in DIRECTIONS for dec in DECOMPOSITIONS
               for (s, e) in FLAGS]
    if item.get('twin'):
        configs = [('tau-star', 'forward', 'independent', False, False)]
    for rep, direction, dec, simp, eqb in configs:
        req = ('strong_task', Q(left), Q(right), Q(rep), Q(direction), Q(dec), Q(str(simp).lower()), Q(str(eqb).lower()))
        label = '%s || %s  [%s %s %s simplify=%s eq-break=%s]' % (left, right, rep, direction, dec, simp, eqb)
        base = {'family': item['family'], 'input_key': left + '||' + right, 'twin': item.get('twin', False)}
        try:
            resp = b.call(*req, timeout=60)
        except bridge_mod.BridgePanic as e:
            r = dict(base)
            r.update(key=label, input=label, verdict='violation-concrete', signature='strong-task-panic',
                     detail='panic: %s' % e, replay={'request': render(req), 'expected': render(('panic', str(e)))})
            out.append(r)
            continue
        problems = parse_problems(resp[0])
        issues = well_formed(problems)
        want_dirs = {'universal': ['forward', 'backward'], 'forward': ['forward'], 'backward': ['backward']}[direction]
        got_dirs = sorted(set(direction_of(p) for p in problems))
        for d in want_dirs:
            # a direction with no conjecture formulas legitimately yields no problem (empty right-hand program)
            pass
        if issues:
            r = dict(base)
            r.update(key=label + '#wf', input=label, verdict='violation-concrete', signature='strong-task-structure',
                     detail='; '.join(issues), replay={'request': render(req), 'expected': render(resp)})
            out.append(r)
            continue
        aliases = symbol_aliases(problems, (left, right))
        for d in want_dirs:
            probs = [p for p in problems if direction_of(p) == d]
            key = (d, problems_key(probs))
            r = dict(base)
            r.update(key=label + '#' + d, input=label + ' ' + d,
                     obligation='forall I over h/t copies: I refutes an emitted %s problem <-> H<=T and <H,T> |= %s and '
                                '<H,T> |/= %s (reference mini-gringo semantics)' % (
                                    d, 'left' if d == 'forward' else 'right', 'right' if d == 'forward' else 'left'),
                     output='%d problems: %s' % (len(probs), ', '.join(p['name'] for p in probs)))
            if key in seen and not item.get('twin'):
                v = seen[key]
                r.update(verdict='held-concrete' if v == 'unsat' else 'dup-' + v, nontrivial=False,
                         detail='same problems as an earlier configuration')
                out.append(r)
                continue
            prem, concl = (lp, rp) if d == 'forward' else (rp, lp)
            wrong = item.get('wrong')

            def build(kw, probs=probs, prem=prem, concl=concl):
                ctx = AliasCtx(aliases, **kw)

                def predmap(name, arity, world):
                    if (name, arity) in table:
                        n_, a_, w_ = table[(name, arity)]
                        return ctx.pred(n_, a_, w_)
                    return ctx.pred('unmapped:' + name, arity, '')
                ref_i = refutation(ctx, probs, predmap)
                sub = z3.And(*ctx.subset_conditions(preds)) if wrong != 'no-subset' else z3.BoolVal(True)
                sat_prem = z3.And(*[ctx.rule_ref(ru, 'h') for ru in prem[1:]])
                sat_concl = z3.And(*[ctx.rule_ref(ru, 'h') for ru in concl[1:]])
                rhs = z3.And(sub, sat_prem, z3.Not(sat_concl))
                return ctx.order_axioms() + ctx.symbol_facts(), [(ref_i, rhs)]
            res = driver.solve_equiv(build, item.get('timeout_ms', 6000),
                                     ({}, {'relativize_int': True}, {'abstract_order': True}))
            seen[key] = res['verdict']
            r.update(verdict=res['verdict'], ms=res['ms'], nontrivial=True, queries=res.get('queries'),
                     vc_size=sum(fol_size(f['formula']) for p in probs for f in p['formulas']))
            if res['verdict'] == 'sat':
                merged = renamed_symbol_collisions(probs, (lp, rp))
                r['signature'] = 'renamed-symbol-collides-with-input-symbol' if merged else 'strong-equivalence-meaning'
                r['detail'] = 'problems: %s ; countermodel: %s' % (
                    ' | '.join('%s: %s' % (p['name'], '; '.join('%s %s' % (f['role'], f['tptp']) for f in p['formulas']))
                               for p in probs)[:900], driver.model_text(res['model'], 900))
                r['replay'] = {'request': render(req), 'expected': render(resp), 'smt2': res['smt2']}
            elif res['verdict'] == 'unknown':
                r['detail'] = res.get('reason')
            out.append(r)
    if item.get('twin'):
        return [r for r in out if r.get('verdict') in ('sat', 'unsat', 'unknown')][:1]
    return out


TWINS_EXPECTED = 1


def twins(tier, seed):
    # without the H<=T conjunct the reference is wrong: the transition axioms must be noticed
    return [{'family': 'twin', 'left': 'p :- q.', 'right': 'q :- p.', 'wrong': 'no-subset'}]


def replay(r):
    return generic_replay(r)


def describe(tier):
    return {
        'rule': 'CLI agreement: 6 pairs x 4 flag sets through `anthem verify --equivalence strong --save-problems` (argument order differs from alphabetical file order) must print/save byte for byte what the library call returns; grammar-generated programs over a confusable name pool (av/genprog.py) paired with a variant of themselves; fixed pairs (homonymous atoms/constants, copy-name constants, the recorded __s collision); ordered pairs of programs from a pool of 26 small programs (propositional, first-order, arithmetic, '
                'intervals, choice, constraints, symbols clashing with 0-ary predicates) x {tau-star, mu} x 3 directions x 2 '
                'decompositions x simplify x eq-break (48 configurations per pair); one obligation per (pair, configuration, '
                'direction); problem families identical to an earlier configuration of the same pair are decided once; '
                'distinct by (pair, configuration, direction); non-trivial = a solver query was needed',
        'functions': ['verifying::task::strong_equivalence::{StrongEquivalenceTask::decompose, transition_axioms}',
                      'translating::{tau_star, mu, gamma}', 'simplifying portfolios (fixpoint)', 'breaking::...::ht',
                      'verifying::problem::{Problem::decompose_independent, decompose_sequential, rename_conflicting_symbols, '
                      'create_unique_formula_names}'],
        'bounds': 'programs of <=2 rules from the pool; integers unbounded; all classical interpretations of the h/t copies '
                  '(including H not subset of T) are solver-quantified',
        'outside': 'programs beyond the pool; TPTP rendering of the formulas (C06); unknown solver answers',
        'assumptions': ['reference mini-gringo HT semantics of av/sem.py (4.3)', 'classical semantics of av/sem.py for the '
                        'emitted formulas', 'symbols renamed <name>__s are read as <name>', 'z3 verdicts'],
        'trusted_base': ['av/sem.py', 'av/tasks.py refutation()', 'z3'],
    }
