"""C08 - natural and mu translations are HT-equivalent to tau* on every rule they accept."""
import random

import z3

from . import asp as A
from . import bridge as bridge_mod
from . import driver
from .c01 import SENT, SHIFT, abstract_numerals, side_conditions, S1, S2
from . import cliagree
from .c01 import CLI_PROGRAMS
from .checks_common import generic_replay
from .fol import text as ftext
from .sem import Ctx, fol_preds, fol_size, free_vars
from .sexp import Q, render

PROPERTY = 'C08'
LEVEL = 'translation_validation'

X, Y, Zv = A.V('X'), A.V('Y'), A.V('Z')
OPS_REG = ('add', 'sub', 'mul')
LEAVES = [X, Y, A.N(S1), A.S('a'), A.INF, A.SUP]
SMALL = [X, Y, A.N(S1), A.S('a'), A.INF, A.SUP]


def reg_terms(depth):
    return A.terms_up_to(depth, LEAVES, SMALL, ops=OPS_REG + ('interval', 'div'))


def skeletons(T):
    q = A.atom
    t = A.tt(T)
    return [
        ('head-basic', A.rule(q('p', T), [q('q', X)])),
        ('head-basic-fact', A.rule(q('p', T))),
        ('head-choice', A.rule(A.choice(q('p', T)), [q('q', X, Y)])),
        ('head-arity2-var-outside', A.rule(q('p', X, T), [q('q', X, Y)])),
        ('head-choice-arity2', A.rule(A.choice(q('p', T, Y)), [q('q', Y)])),
        ('head-two-intervals', A.rule(q('p', T, A.tt and ('interval', A.N(S2), Y)), [q('q', Y)])),
        ('body-pos-var-outside', A.rule(q('p', X), [q('q', T), q('r', X)])),
        ('body-not', A.rule(q('p', X), [q('q', X), 'not ' + q('q', T)])),
        ('body-notnot', A.rule(q('p', Y), ['not not ' + q('q', T), q('r', Y)])),
        ('body-eq-rhs', A.rule(q('p', Zv), ['%s = %s' % (A.tt(Zv), t), q('q', X, Y)])),
        ('body-eq-lhs', A.rule(q('p', Zv), ['%s = %s' % (t, A.tt(Zv))])),
        ('body-less', A.rule(None, ['%s < %s' % (t, A.tt(Y)), q('q', X, Y)])),
        ('body-neq-symbol', A.rule(A.choice('p'), ['%s != a' % t, q('q', X)])),
        ('body-geq-inf', A.rule(q('p', X), ['%s >= #inf' % t, 'not ' + q('q', X)])),
        ('constraint', A.rule(None, [q('q', T, X), 'not ' + q('r', T)])),
    ]


HAND = [
    'p(N0) :- q(N0). p(1..3, N0) :- q(N0).',
    'p(1..3, N0 + 1) :- q(N0).',
    'p(1..3) :- q(N0 + 1).',
    'p(1..N0, N1..5) :- q(N0, N1).',
    '{p(N0..N1, 1..2, N2)} :- q(N0, N1, N2).',
    'p(X, 1..X) :- q(X).',
    'p(X) :- q(X), r(X + 1).',
    'p(X) :- q(X), not r(X * 2).',
    'p(X, Y) :- q(X), Y = 1..X.',
    'p(X, Y) :- q(X, Y), X = Y..3.',
    'p(X) :- X = a..b.',
    'p(X) :- q(X), X < a, X + 1 > 3.',
    'p(X) :- q(X), X != #inf, -X = 3.', 'p(X) :- q(X), X != 1..3.', 'p(X) :- q(X), 1..3 != X.', 'p(X) :- q(X), X <= 1..3.', 'p(X) :- q(X), X > 1..3.',
    'p(-a). p(-(1..2)). p(-X) :- q(X).',
    'p(a + 1). p(#inf - 1). p(1 * #sup).',
    'p(X..Y, Z) :- q(X, Y, Z), Z = X + Y.',
    'p((1..2)..3). p(1..(2..3)). p((1..2) + 1).',
    '{p(X + 1)} :- q(X). {p(a)}. {p(1..2)}.',
    ':- p(X), q(X + 0). :- p(X), not q(X - X).',
    'p(X) :- q(X), X = X. p(X) :- q(X), X + 0 = X.',
    'p(X) :- q(Y), X = Y + 1. p(X) :- X = 1..3, not q(X).',
    'p(N1) :- q(N1). p(2..3, 1..N1) :- q(N1).',
    'p(X / 2) :- q(X). p(X \\ 2) :- q(X). p(1..X / 2) :- q(X).',
    'p(X, Y) :- q(X), q(Y), X + Y = Y + X.',
    'p(X) :- q(X), 1 <= X. p(X) :- q(X), X = 1 .. 2, X != 1.',
]


def generate(tier, seed):
    rnd = random.Random(seed)
    items = []

    def add(fam, prog, sentinels=SENT):
        items.append({'family': fam, 'program': prog, 'sentinels': list(sentinels)})

    levels = reg_terms(2)
    for T in levels[0] + levels[1]:
        for fam, prog in skeletons(T):
            add('depth<=1/' + fam, prog)
    d2 = levels[2]
    n2 = 350 if tier == 'quick' else min(len(d2), 6000)
    for T in rnd.sample(d2, n2):
        sk = skeletons(T)
        for fam, prog in rnd.sample(sk, 3 if tier == 'quick' else 6):
            add('depth2/' + fam, prog)
    for h in HAND:
        add('hand', h, ())
    # head variables named like the fresh N<i> variables
    for T in [t for t in levels[1] if t[0] == 'interval']:
        for names in (('N0', 'N1'), ('N1', 'N0'), ('N0', 'N00'), ('N2', 'N1')):
            T2 = A.rename(T, {'X': names[0], 'Y': names[1]})
            n0, n1 = A.V(names[0]), A.V(names[1])
            add('fresh-N-names', A.rule(A.atom('p', T2, n0), [A.atom('q', n0, n1)]))
            add('fresh-N-names', A.rule(A.atom('p', n1, T2), [A.atom('q', A.tt and ('add', n0, A.N(S2)), n1)]))
            add('fresh-N-names', A.rule(A.choice(A.atom('p', T2, T2)), [A.atom('q', n0, n1)]))
    for prog in CLI_PROGRAMS + ['p :- not not p.', 'p(X + 1) :- q(X), not not p(X + 1).', '{p(1..3)}.', 'p(1..2, 1..2).']:
        items.append({'family': 'cli-agreement', 'program': prog, 'cli': True})
    return items


def check_item(item):
    b = bridge_mod.get()
    if item.get('cli'):
        rs = [cliagree.translate(b, item['family'], item['program'], item['program'], how) for how in ('natural', 'mu')]
        return [r for r in rs if r]
    prog = item['program']
    sent = list(item.get('sentinels') or [])
    base = {'family': item['family'], 'input_key': prog, 'twin': item.get('twin', False)}
    out = []
    try:
        tau = b.call('tau_star', Q(prog))
        nat = b.call('natural', Q(prog))
        mu = b.call('mu', Q(prog))
        if sent and any(str(n) in prog for n in sent):
            prog2 = prog
            for n in sent:
                prog2 = prog2.replace(str(n), str(n + SHIFT))
            same = True
            for op, resp in (('tau_star', tau), ('natural', nat), ('mu', mu)):
                r2 = b.call(op, Q(prog2))
                if abstract_numerals(render(resp), sent) != abstract_numerals(render(r2), [n + SHIFT for n in sent]):
                    same = False
            if not same:
                sent = []
        else:
            sent = []
    except bridge_mod.BridgePanic as e:
        r = dict(base)
        r.update(key=prog + '#panic', input=prog, verdict='violation-concrete', signature='translation-panic',
                 detail='panic: %s' % e, replay={'request': render(('mu', Q(prog))), 'expected': render(('panic', str(e)))})
        return [r]
    program, theory, globals_, per_rule, tau_text = tau
    rules = program[1:]
    nat_rules = nat[1]
    mu_formulas = mu[1][1:]
    if len(mu_formulas) != len(rules):
        r = dict(base)
        r.update(key=prog + '#mu-count', input=prog, verdict='violation-concrete', signature='mu-formula-count',
                 detail='%d rules, %d mu formulas' % (len(rules), len(mu_formulas)),
                 replay={'request': render(('mu', Q(prog))), 'expected': render(mu)})
        return [r]
    wrong = item.get('wrong')
    for k in range(len(rules)):
        tau_k = per_rule[k]
        cands = []
        if nat_rules[k][0] == 'some':
            cands.append(('natural', nat_rules[k][1]))
        cands.append(('mu', mu_formulas[k]))
        done = {}
        for name, f in cands:
            r = dict(base)
            rule_text = prog if len(rules) == 1 else '%s  [rule %d]' % (prog, k)
            r.update(key='%s#%d#%s' % (prog, k, name), input='%s  [%s]' % (rule_text.replace('\n', ' '), name),
                     output=ftext(f),
                     obligation='forall H<=T: ht(%s(R), w) <-> ht(tau*(R), w) at both worlds; result closed' % name)
            fv = free_vars(f)
            if fv:
                r.update(verdict='violation-concrete', signature=name + '-free-variables',
                         detail='free variables %s in %s' % (sorted(fv), ftext(f)),
                         replay={'request': render((name if name != 'natural' else 'natural', Q(prog))),
                                 'expected': render(nat if name == 'natural' else mu)})
                out.append(r)
                continue
            if f == tau_k:
                r.update(verdict='held-concrete', nontrivial=False, detail='identical to the tau* formula (fallback)')
                out.append(r)
                continue
            if render(f) in done:
                r.update(verdict='held-concrete' if done[render(f)] == 'unsat' else done[render(f)], nontrivial=False,
                         detail='same formula as natural')
                out.append(r)
                continue
            preds = fol_preds(f) | fol_preds(tau_k)

            def build(kw, f=f):
                kw = dict(kw)
                concrete = kw.pop('concrete_numerals', False)
                ctx = Ctx(**kw)
                ctx.sentinels = set() if concrete else set(sent)
                pairs = []
                for w in ('h', 't'):
                    lhs = ctx.ht(f, w)
                    rhs = ctx.ht(tau_k, w) if wrong is None else ctx.cl(tau_k, world=w)
                    pairs.append((lhs, rhs))
                return side_conditions(ctx, preds), pairs
            lad = [{'relativize_int': True}, {}] + ([{'concrete_numerals': True, 'relativize_int': True}] if sent else []) + [{'abstract_order': True}]
            res = driver.solve_equiv(build, item.get('timeout_ms', 4000), tuple(lad))
            done[render(f)] = res['verdict']
            r.update(verdict=res['verdict'], ms=res['ms'], vc_size=fol_size(f) + fol_size(tau_k), nontrivial=True,
                     queries=res.get('queries'))
            if res['verdict'] == 'sat':
                r['signature'] = name + '-meaning'
                r['detail'] = '%s: %s ; tau*: %s ; countermodel: %s' % (name, ftext(f)[:400], ftext(tau_k)[:400],
                                                                       driver.model_text(res['model'], 1000))
                cli_out = nat[2][2] if (name == 'natural' and nat[2][0] == 'some') else (mu[2] if name == 'mu' else None)
                r['replay'] = {'request': render((name, Q(prog))), 'expected': render(nat if name == 'natural' else mu),
                               'smt2': res['smt2']}
                if cli_out is not None:
                    r['replay']['cli'] = {'args': ['translate', '--with', name, 'in.lp'], 'files': {'in.lp': prog},
                                          'expect_stdout': str(cli_out)}
            elif res['verdict'] == 'unknown':
                r['detail'] = res.get('reason')
            out.append(r)
    if item.get('twin'):
        return [r for r in out if r.get('verdict') in ('sat', 'unsat', 'unknown')][:1]
    return out


TWINS_EXPECTED = 2


def twins(tier, seed):
    # a wrong oracle (tau* read classically in the here-world) must be refuted
    return [
        {'family': 'twin', 'program': 'p(X) :- q(X), not r(X + 1).', 'sentinels': [], 'wrong': 'classical'},
        {'family': 'twin', 'program': '{p(1..3)} :- not q(a).', 'sentinels': [], 'wrong': 'classical'},
    ]


def replay(r):
    return generic_replay(r)


def describe(tier):
    return {
        'rule': 'CLI agreement: 16 programs through `anthem translate --with natural|mu` must print/save byte for byte what the library call returns; rules built from 15 skeletons (variables inside and outside arithmetic, intervals in basic and choice heads '
                'and on either side of `=`, symbols/#inf/#sup next to arithmetic, unary minus) with a term of depth <=1 '
                '(exhaustive) or 2 (seeded) over + - * .. / ; head/body variables named like the fresh N<i> variables; '
                'hand-written rules; for every rule one obligation per translation that returns a formula (natural when '
                'it accepts, mu always); distinct by (program, rule, translation); non-trivial = formula differs from '
                'the tau* formula',
        'functions': ['translating::formula_representation::natural::{natural_rule, natural_head, natural_basic_head, '
                      'natural_choice_head, natural_head_atom, natural_head_interval, fresh_variables_for_head_atom, '
                      'natural_body, natural_b_literal, natural_b_atom, natural_comparison, int_variables, p2f, p2f_int_term, '
                      'is_term_regular_of_first_kind, is_term_regular_of_second_kind, contains_symbol_or_infimum_or_supremum}',
                      'translating::formula_representation::mu::Mu', 'tau_star::tau_star_rule (oracle side)'],
        'bounds': 'term depth <=2, arity <=3, <=3 body literals, <=2 rules; integers unbounded; numerals symbolic where '
                  'all three translations are parametric in them',
        'outside': 'rules beyond the bounds; unknown solver answers; the oracle is tau* itself (as the property states), '
                   'whose own correctness is C01',
        'assumptions': ['reference HT semantics of av/sem.py (4.2)', 'z3 verdicts; counterexamples re-decided by z3 4.8.12 '
                        'and cvc5 and replayed through `anthem translate --with natural|mu`'],
        'trusted_base': ['av/sem.py', 'z3'],
    }
