"""C11 - applicability checks are exact and enforced before any obligation is emitted.

Solver use: acyclicity of a dependency graph is decided by z3 as the existence of a ranking function
(r(p) > r(q) for every edge p -> q); `sat` = acyclic (the model is the ranking), `unsat` = cyclic. The graphs are
built from the parsed program by this module from the documented definitions (res/manual/src/analyze.md and the
property text), not from anthem's analysis code."""
import itertools
import random

import z3

from . import bridge as bridge_mod
from . import driver
from .checks_common import generic_replay
from .refext import ug_info
from .sem import asp_preds, fol_preds
from .sexp import Q, render

PROPERTY = 'C11'
LEVEL = 'translation_validation'

RULES = [
    'p :- q.', 'q :- p.', 'p :- not q.', 'q :- not not p.', 'p(X) :- p(X).', 'p(X) :- q(X), not p(X).', '{p(X)} :- q(X).',
    'q(X) :- p(X).', '{q(X)} :- p(X, Y).', 'p(X, Y) :- q(X), q(Y).', 'p(X) :- p(X, X).', 'p(X, Y) :- p(Y).', 'r(X) :- s(X).',
    's(X) :- t(X).', 't(X) :- u(X).', 'u(X) :- r(X).', 'u(X) :- not r(X).', ':- p, q.', ':- p(X), not q(X).', 'p :- p, not p.',
    'a :- b. b :- c. c :- d. d :- e.', 'e :- a.', 'e :- not a.', 'p(1..3).', 'p(X) :- X = 1..3, q(X).', 'q(X + 1) :- p(X).',
]

# regularity corpus: (rule, note)
REG_RULES = [
    'p(X).', 'p(a).', 'p(#inf).', 'p(1 + 2).', 'p(X * Y - 3).', 'p(-X).', 'p(1 / 2).', 'p(X \\ 2).', 'p(a + 1).', 'p(#sup - 1).',
    'p(1..3).', 'p(X..Y).', 'p(a..3).', 'p(1..#sup).', 'p((1..2)..3).', 'p((1..2) + 1).', 'p(1..2, X + 1).', '{p(1..X)} :- q(X).',
    'p(X) :- q(1..2).', 'p(X) :- q(X, 1..2).', 'p(X) :- q(X, Y), not r(1, 2..3).', 'p(X) :- X = 1..2..3.', 'p(X) :- q(X + 1).', 'p(X) :- q(a + 1).', 'p(X) :- X = 1..3.', 'p(X) :- 1..3 = X.', 'p(X) :- X < 1..3.',
    'p(X) :- X = a..3.', 'p(X) :- X = Y + 1, q(Y).', 'p(X) :- X != a, X < #sup.', 'p(X) :- X = (1..2) + 1.', ':- p(X / 2).',
    # every relation against an interval, on either side
    'p(X) :- q(X), X != 1..3.', 'p(X) :- q(X), 1..3 != X.', 'p(X) :- X <= 1..3.', 'p(X) :- X > 1..3.', 'p(X) :- X >= 1..3.', 'p(X) :- 1..3 < X.',
    'p(X) :- q(X), X = 1..3, X != 2..3.',
    ':- p(X), X * X = 4.', 'p(X) :- not q(X - 1), not not q(2 * X).', 'p(X) :- q(-(a)).', 'p(X) :- q(-(1..2)).', 'p(X) :- X = 1..Y * 2, q(Y).',
]

# acceptance corpus: (name, kind, left, right, ug, bypass)
UG = 'input: q/1. output: p/1.'
ACCEPT = [
    ('ok', 'program', 'p(X) :- q(X), not r(X). r(X) :- q(X), X > 1.', 'p(X) :- q(X), X <= 1.', UG),
    ('non-tight-left', 'program', 'p(X) :- p(X), q(X).', 'p(X) :- q(X).', UG),
    ('non-tight-right', 'program', 'p(X) :- q(X).', 'p(X) :- t(X). t(X) :- p(X). p(X) :- q(X).', 'input: q/1. output: p/1. output: t/1.'),
    ('tight-through-negation', 'program', 'p(X) :- q(X), not p(X).', 'p(X) :- q(X), not not p(X).', UG),
    ('private-recursion-positive', 'program', 'r(X) :- r(X), q(X). p(X) :- r(X).', 'p(X) :- q(X).', UG),
    ('private-recursion-negative', 'program', 'r(X) :- q(X), not s(X). s(X) :- q(X), not r(X). p(X) :- r(X).', 'p(X) :- q(X).', UG),
    ('private-recursion-right', 'program', 'p(X) :- q(X).', 'r(X) :- q(X), not r(X). p(X) :- r(X).', UG),
    ('private-recursion-through-public-is-fine', 'program', 'r(X) :- p(X). p(X) :- q(X), not r(X).', 'p(X) :- q(X).', UG),
    ('private-choice', 'program', '{r(X)} :- q(X). p(X) :- r(X).', 'p(X) :- q(X).', UG),
    ('private-choice-right', 'program', 'p(X) :- q(X).', '{r(X)} :- q(X). p(X) :- r(X).', UG),
    ('private-recursion-via-second-literal', 'program', 'r(X) :- q(X), not not r(X). p(X) :- r(X).', 'p(X) :- q(X).', UG),
    ('input-name-with-other-arity-in-head-is-fine', 'program', 'q(X, X) :- q(X). p(X) :- q(X, X).', 'p(X) :- q(X).', UG),
    ('public-choice', 'program', '{p(X)} :- q(X).', '{p(X)} :- q(X), X = X.', UG),
    ('input-in-head-left', 'program', 'q(1). p(X) :- q(X).', 'p(X) :- q(X).', UG),
    ('input-in-head-right-choice', 'program', 'p(X) :- q(X).', '{q(X)} :- p(X). p(X) :- q(X).', UG),
    ('input-output-overlap', 'program', 'p(X) :- q(X).', 'p(X) :- q(X).', 'input: q/1. output: p/1. output: q/1.'),
    ('same-name-different-arity-is-fine', 'program', 'p(X) :- q(X).', 'p(X) :- q(X).', 'input: q/1. output: p/1. output: q/2.'),
    ('ug-assumption-output', 'program', 'p(X) :- q(X).', 'p(X) :- q(X).', UG + ' assumption: forall X (p(X) -> q(X)).'),
    ('ug-assumption-private', 'program', 'p(X) :- q(X), not r(X). r(X) :- q(X), X > 1.', 'p(X) :- q(X), X <= 1.',
     UG + ' assumption: forall X (r(X) -> q(X)).'),
    ('ug-assumption-private-of-right-program', 'program', 'p(X) :- q(X), X <= 1.', 'p(X) :- q(X), not r(X). r(X) :- q(X), X > 1.',
     UG + ' assumption: forall X (r(X) -> q(X)).'),
    ('ug-assumption-private-of-right-program-ground', 'program', 'p(1).', 'r(1). p(X) :- r(X), X != 1.', 'output: p/1. assumption: not r(1).'),
    ('ug-assumption-private-of-both-programs', 'program', 'p(X) :- q(X), not r(X). r(X) :- q(X), X > 1.',
     'p(X) :- q(X), not r(X). r(X) :- q(X), X > 1.', UG + ' assumption: not r(5).'),
    ('ug-assumption-undeclared-predicate', 'program', 'p(X) :- q(X).', 'p(X) :- q(X).', UG + ' assumption: forall X (zzz(X) -> q(X)).'),
    ('spec-assumption-private-of-program', 'spec', 'assumption: forall X (r(X) -> q(X)). spec: forall X (p(X) <-> q(X) and X <= 1).',
     'p(X) :- q(X), not r(X). r(X) :- q(X), X > 1.', UG),
    ('ug-assumption-inputs-only', 'program', 'p(X) :- q(X).', 'p(X) :- q(X).', UG + ' assumption: forall X (q(X) -> X > 0).'),
    ('ug-second-assumption-output', 'program', 'p(X) :- q(X).', 'p(X) :- q(X).',
     UG + ' assumption: forall X (q(X) -> X > 0). assumption: forall X (q(X) -> p(X)).'),
    ('ug-directed-assumption-output', 'program', 'p(X) :- q(X).', 'p(X) :- q(X).', UG + ' assumption(forward): forall X (p(X) -> q(X)).'),
    ('spec-assumption-output-after-spec', 'spec', 'spec: forall X (p(X) <-> q(X)). assumption: forall X (q(X) -> X > 0). '
     'assumption(forward): forall X (p(X) -> q(X)).', 'p(X) :- q(X).', UG),
    ('overlap-declared-after-other-arity', 'program', 'p(X) :- q(X).', 'p(X) :- q(X).', 'input: q/2. input: q/1. output: p/1. output: q/1.'),
    ('private-recursion-through-choice-body', 'program', 'r(X) :- q(X), not s(X). {s(X)} :- r(X). p(X) :- r(X).', 'p(X) :- q(X).', UG),
    ('placeholder-two-sorts', 'program', 'p(n).', 'p(n) :- not q(n).', 'input: n -> integer. input: n -> general. input: q/1. output: p/1.'),
    ('placeholder-twice-same-sort', 'program', 'p(n).', 'p(n) :- not q(n).', 'input: n -> integer. input: n -> integer. input: q/1. output: p/1.'),
    ('spec-assumption-output', 'spec', 'assumption: forall X (p(X) -> q(X)). spec: forall X (p(X) <-> q(X)).', 'p(X) :- q(X).', UG),
    ('spec-ok', 'spec', 'assumption: forall X (q(X) -> X > 0). spec: forall X (p(X) <-> q(X)).', 'p(X) :- q(X).', UG),
    ('long-private-cycle', 'program', 'a(X) :- b(X). b(X) :- not c(X). c(X) :- d(X). d(X) :- not not a(X), q(X). p(X) :- a(X).', 'p(X) :- q(X).', UG),
    ('private-cycle-different-arity-is-fine', 'program', 'r(X) :- r(X, X). r(X, Y) :- q(X), q(Y). p(X) :- r(X).', 'p(X) :- q(X).', UG),
]


def generate(tier, seed):
    rnd = random.Random(seed)
    items = []
    progs = [[r] for r in RULES]
    pairs = list(itertools.combinations(RULES, 2))
    triples = list(itertools.combinations(RULES, 3))
    rnd.shuffle(pairs)
    rnd.shuffle(triples)
    progs += [list(p) for p in pairs[:200 if tier == 'quick' else len(pairs)]]
    progs += [list(p) for p in triples[:300 if tier == 'quick' else 20000]]
    quads = [rnd.sample(RULES, 4) for _ in range(100 if tier == 'quick' else 20000)]
    progs += quads
    for rules in progs:
        items.append({'family': 'tightness', 'program': ' '.join(rules)})
    for r in REG_RULES:
        items.append({'family': 'regularity', 'program': r})
    for r1, r2 in rnd.sample(list(itertools.combinations(REG_RULES, 2)), 60 if tier == 'quick' else 500):
        items.append({'family': 'regularity', 'program': r1 + ' ' + r2})
    for t in ACCEPT:
        for bypass in (False, True):
            items.append({'family': 'acceptance', 'task': t, 'bypass': bypass})
    return items


def acyclic(edges, timeout_ms=5000):
    """z3 decides the existence of a ranking function for the graph."""
    nodes = sorted(set(x for e in edges for x in e))
    rank = {n: z3.Int('rank:%s/%d' % n) for n in nodes}
    res = driver.solve([rank[a] > rank[b] for (a, b) in edges], timeout_ms)
    return res


def positive_edges(program):
    edges = []
    for rule in program[1:]:
        h = rule[1]
        if h[0] == 'falsity':
            continue
        hp = (str(h[1][1]), len(h[1]) - 2)
        for b in rule[2]:
            if b[0] == 'lit' and b[1] == 'pos':
                edges.append((hp, (str(b[2][1]), len(b[2]) - 2)))
    return edges


def private_edges(program, private):
    edges = []
    for rule in program[1:]:
        h = rule[1]
        if h[0] == 'falsity':
            continue
        hp = (str(h[1][1]), len(h[1]) - 2)
        if hp not in private:
            continue
        for b in rule[2]:
            if b[0] == 'lit':
                bp = (str(b[2][1]), len(b[2]) - 2)
                if bp in private:
                    edges.append((hp, bp))
    return edges


def private_choice(program, private):
    return any(rule[1][0] == 'choice' and (str(rule[1][1][1]), len(rule[1][1]) - 2) in private for rule in program[1:])


def head_preds(program):
    return {(str(r[1][1][1]), len(r[1][1]) - 2) for r in program[1:] if r[1][0] != 'falsity'}


# ---- regularity as documented (res/manual/src/analyze.md)
def has_sym_inf_sup(t):
    if t[0] in ('psym', 'pinf', 'psup'):
        return True
    if t[0] in ('pnum', 'var'):
        return False
    return any(has_sym_inf_sup(x) for x in t[1:])


def first_kind(t):
    if t[0] in ('var', 'pnum', 'psym', 'pinf', 'psup'):
        return True
    if t[0] == 'neg':
        return first_kind(t[1]) and not has_sym_inf_sup(t[1])
    if t[0] in ('add', 'sub', 'mul'):
        return first_kind(t[1]) and first_kind(t[2]) and not has_sym_inf_sup(t[1]) and not has_sym_inf_sup(t[2])
    return False


def second_kind(t):
    return t[0] == 'interval' and first_kind(t[1]) and first_kind(t[2]) and not has_sym_inf_sup(t[1]) and not has_sym_inf_sup(t[2])


def regular_rule(rule):
    h = rule[1]
    if h[0] != 'falsity':
        for t in h[1][2:]:
            if not (first_kind(t) or second_kind(t)):
                return False
    for b in rule[2]:
        if b[0] == 'lit':
            if not all(first_kind(t) for t in b[2][2:]):
                return False
        else:
            rel, l, r = str(b[1]), b[2], b[3]
            if first_kind(l) and first_kind(r):
                continue
            if rel == '=' and first_kind(l) and second_kind(r):
                continue
            return False
    return True


def check_item(item):
    b = bridge_mod.get()
    fam = item['family']
    if fam == 'tightness':
        prog = item['program']
        tree = b.call('parse_program', Q(prog))[0]
        real = str(b.call('is_tight', Q(prog))[0]) == 'true'
        edges = positive_edges(tree)
        res = acyclic(edges)
        r = {'family': fam, 'key': 'tight#' + prog, 'input': prog, 'nontrivial': bool(edges), 'twin': item.get('twin', False),
             'obligation': 'is_tight(P) <-> the positive predicate dependency graph has a ranking function (z3: sat <-> acyclic)',
             'output': 'is_tight=%s, %d positive edges, ranking query: %s' % (real, len(edges), res['verdict']), 'ms': res['ms'], 'queries': 1}
        if res['verdict'] == 'unknown':
            r.update(verdict='unknown', detail=res.get('reason'))
        else:
            want = res['verdict'] == 'sat'
            if item.get('wrong') == 'negation-counts':
                want = acyclic(edges + [(e[0], e[1]) for e in all_edges(tree)])['verdict'] == 'sat'
            if want == real:
                r.update(verdict='unsat' if not want else 'held-concrete')
                r['verdict'] = 'held-concrete'
            else:
                r.update(verdict='violation-concrete', signature='tightness-mismatch',
                         detail='anthem says tight=%s, ranking function %s; positive edges %s' % (
                             real, 'exists' if want else 'does not exist', edges),
                         replay={'request': render(('is_tight', Q(prog))), 'expected': render((str(real).lower(),))})
        r['solver_verdict'] = res['verdict']
        return [r]
    if fam == 'regularity':
        prog = item['program']
        tree = b.call('parse_program', Q(prog))[0]
        resp = b.call('natural', Q(prog))
        real = str(resp[3]) == 'true'
        want = all(regular_rule(ru) for ru in tree[1:])
        r = {'family': fam, 'key': 'regular#' + prog, 'input': prog, 'nontrivial': True, 'twin': item.get('twin', False),
             'obligation': 'is_regular(P) <-> every rule is regular as documented in res/manual/src/analyze.md',
             'output': 'is_regular=%s' % real}
        if want == real:
            r.update(verdict='held-concrete')
        else:
            r.update(verdict='violation-concrete', signature='regularity-mismatch',
                     detail='anthem says regular=%s, documented definition says %s' % (real, want),
                     replay={'request': render(('natural', Q(prog))), 'expected': render(resp)})
        return [r]
    # acceptance
    name, kind, left, right, ug = item['task']
    bypass = item['bypass']
    label = '%s bypass-tightness=%s' % (name, bypass)
    ug_tree = b.call('parse_ug', Q(ug))[0]
    right_tree = b.call('parse_program', Q(right))[0]
    left_tree = b.call('parse_program', Q(left))[0] if kind == 'program' else b.call('parse_spec', Q(left))[0]
    inputs, outputs, placeholders, assumptions, _ = ug_info(ug_tree)
    public = set(inputs) | set(outputs)
    reasons = []
    solver_ms = 0
    progs = [('right', right_tree)] + ([('left', left_tree)] if kind == 'program' else [])
    for side, tree in progs:
        res = acyclic(positive_edges(tree))
        solver_ms += res['ms']
        if res['verdict'] == 'unsat' and not bypass:
            reasons.append('%s program not tight' % side)
        private = {p for p in asp_preds(tree) if p not in public}
        res = acyclic(private_edges(tree, private))
        solver_ms += res['ms']
        if res['verdict'] == 'unsat':
            reasons.append('%s program has private recursion' % side)
        if private_choice(tree, private):
            reasons.append('%s program has a choice rule with a private head' % side)
        if head_preds(tree) & set(inputs):
            reasons.append('%s program: input predicate in a rule head' % side)
    if set(inputs) & set(outputs):
        reasons.append('input and output declarations overlap')
    for a in assumptions:
        if fol_preds(a[4]) - set(inputs):
            reasons.append('user-guide assumption mentions a non-input predicate')
    if kind == 'spec':
        for a in left_tree[1:]:
            if a[1] == 'assumption' and fol_preds(a[4]) & set(outputs):
                reasons.append('specification assumption mentions an output predicate')
    names = [str(e[1]) for e in ug_tree[1:] if e[0] == 'placeholder']
    sorts = {}
    for e in ug_tree[1:]:
        if e[0] == 'placeholder':
            sorts.setdefault(str(e[1]), set()).add(str(e[2]))
    if any(len(v) > 1 for v in sorts.values()):
        reasons.append('placeholder declared with two sorts')
    req = ('external_task', Q(kind), Q(left), Q(right), Q(ug), Q(''), Q('universal'), Q('sequential'), Q('true'), Q('true'),
           Q(str(bypass).lower()))
    resp = b.call(*req, timeout=120)
    refused = resp[0][:1] == ('refused',)
    nproblems = 0 if refused else len(resp[0])
    r = {'family': fam, 'key': 'accept#' + label, 'input': '%s :: %s || %s || %s' % (label, left[:100], right[:100], ug[:100]),
         'nontrivial': True, 'twin': item.get('twin', False), 'ms': solver_ms, 'queries': 2 * len(progs),
         'obligation': 'the task yields problems <-> both programs tight (unless bypassed), no private recursion, no private choice, '
                       'no input predicate in a head, inputs/outputs disjoint, assumptions over inputs only, no placeholder with two sorts',
         'output': 'refused: %s' % str(resp[0][1])[:80] if refused else '%d problems' % nproblems}
    want_refused = bool(reasons)
    dup_same_sort = any(names.count(n) > 1 for n in names) and not any(len(v) > 1 for v in sorts.values())
    if dup_same_sort:
        # the property only speaks about two different sorts; either outcome is acceptable for a repeated identical declaration
        r.update(verdict='held-concrete', detail='repeated identical placeholder declaration: outside the property')
    elif want_refused == refused and (refused or nproblems > 0):
        r.update(verdict='held-concrete', detail='; '.join(reasons))
    else:
        r.update(verdict='violation-concrete', signature='acceptance-mismatch:' + name,
                 detail='anthem %s the task; reference conditions violated: %s' % ('refused' if refused else 'accepted', reasons or 'none'),
                 replay={'request': render(req), 'expected': render(resp)})
    return [r]


def all_edges(program):
    edges = []
    for rule in program[1:]:
        h = rule[1]
        if h[0] == 'falsity':
            continue
        hp = (str(h[1][1]), len(h[1]) - 2)
        for b in rule[2]:
            if b[0] == 'lit':
                edges.append((hp, (str(b[2][1]), len(b[2]) - 2)))
    return edges


TWINS_EXPECTED = 1


def twins(tier, seed):
    # a reference that also counts negative edges must disagree with anthem on a program that is tight only through negation
    return [{'family': 'tightness', 'program': 'p :- not q. q :- not p.', 'wrong': 'negation-counts'}]


def replay(r):
    return generic_replay(r)


def describe(tier):
    return {
        'rule': 'programs of 1-4 rules from a pool of 26 rules (cycles through single and double negation, through choice heads, '
                'through predicates of equal name and different arity, self loops, a cycle of length 5, constraints): tightness; '
                '34 rules and seeded pairs for regularity; 23 external tasks, each violating one acceptance condition or being a '
                'control, with and without --bypass-tightness. One obligation per program/task; non-trivial = the graph has edges',
        'functions': ['analyzing::tightness::is_tight', 'analyzing::regularity::is_regular (via natural)',
                      'analyzing::private_recursion::has_private_recursion',
                      'verifying::task::external_equivalence::ExternalEquivalenceTask::{ensure_*, decompose}'],
        'bounds': '<=4 rules from the pool; graphs of <=8 predicates; the listed tasks',
        'outside': 'programs/tasks beyond the pools; which error is reported when several conditions fail; acceptance conditions the '
                   'property does not list (e.g. specification assumptions over predicates that are neither input nor output)',
        'assumptions': ['dependency graphs and the regularity definition are re-derived from res/manual/src/analyze.md and the property '
                        'text by av/c11.py', 'unary minus counts as subtraction for regularity', 'z3 decides acyclicity as existence of a '
                        'ranking function over the integers'],
        'trusted_base': ['av/c11.py graph construction and documented definitions', 'z3'],
    }
