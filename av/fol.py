"""Constructors and enumerators for target-language (fol) syntax trees as S-expressions."""
import itertools
import random

from .sexp import Q

# ---------------------------------------------------------------- constructors

def gvar(n): return ('gvar', Q(n))
def ivar(n): return ('ivar', Q(n))
def svar(n): return ('svar', Q(n))
def num(n): return ('num', str(int(n)))
def sym(n): return ('sym', Q(n))
INF = ('inf',)
SUP = ('sup',)
TRUE = ('true',)
FALSE = ('false',)
def atom(name, *args): return ('atom', Q(name)) + tuple(args)
def cmp(t0, *rest): return ('cmp', t0) + tuple(Q(x) if isinstance(x, str) else x for x in rest)
def neg(f): return ('not', f)
def conj(a, b): return ('and', a, b)
def disj(a, b): return ('or', a, b)
def imp(a, b): return ('imp', a, b)
def rimp(a, b): return ('rimp', a, b)
def iff(a, b): return ('iff', a, b)
def var(n, s='g'): return (Q(n), s)
def forall(vs, f): return ('forall', tuple(vs), f)
def exists(vs, f): return ('exists', tuple(vs), f)
def add(a, b): return ('add', a, b)
def sub(a, b): return ('sub', a, b)
def mul(a, b): return ('mul', a, b)
def ineg(a): return ('neg', a)

BIN = ('and', 'or', 'imp', 'rimp', 'iff')


def conjoin(fs):
    fs = list(fs)
    if not fs:
        return TRUE
    out = fs[0]
    for f in fs[1:]:
        out = conj(out, f)
    return out


def depth(f):
    t = f[0]
    if t == 'not':
        return 1 + depth(f[1])
    if t in BIN:
        return 1 + max(depth(f[1]), depth(f[2]))
    if t in ('forall', 'exists'):
        return 1 + depth(f[2])
    return 0


def term_text(t):
    tag = t[0]
    if tag == 'inf': return '#inf'
    if tag == 'sup': return '#sup'
    if tag == 'gvar': return '%s$g' % t[1]
    if tag == 'ivar': return '%s$i' % t[1]
    if tag == 'svar': return '%s$s' % t[1]
    if tag == 'gfc': return '%s$g' % t[1]
    if tag == 'ifc': return '%s$i' % t[1]
    if tag == 'sfc': return '%s$s' % t[1]
    if tag == 'num': return str(t[1])
    if tag == 'sym': return str(t[1])
    if tag == 'neg': return '-(%s)' % term_text(t[1])
    op = {'add': '+', 'sub': '-', 'mul': '*'}[tag]
    return '(%s %s %s)' % (term_text(t[1]), op, term_text(t[2]))


def text(f):
    """Fully parenthesised, sort-annotated rendering (for humans / keys; not anthem's printer)."""
    tag = f[0]
    if tag == 'true': return '#true'
    if tag == 'false': return '#false'
    if tag == 'atom':
        if len(f) == 2:
            return str(f[1])
        return '%s(%s)' % (f[1], ', '.join(term_text(t) for t in f[2:]))
    if tag == 'cmp':
        out = term_text(f[1])
        i = 2
        while i < len(f):
            out += ' %s %s' % (f[i], term_text(f[i + 1]))
            i += 2
        return out
    if tag == 'not': return 'not (%s)' % text(f[1])
    if tag in BIN:
        op = {'and': 'and', 'or': 'or', 'imp': '->', 'rimp': '<-', 'iff': '<->'}[tag]
        return '(%s) %s (%s)' % (text(f[1]), op, text(f[2]))
    if tag in ('forall', 'exists'):
        return '%s %s (%s)' % (tag, ' '.join('%s$%s' % (n, s) for (n, s) in f[1]), text(f[2]))
    raise ValueError(f)


# ---------------------------------------------------------------- enumerators

def unary_binary_quant(children_a, children_b, quants):
    """All formulas with one connective on top of the given children."""
    for c in children_a:
        yield neg(c)
    for op in BIN:
        for a in children_a:
            for b in children_b:
                yield (op, a, b)
    for (q, vs) in quants:
        for c in children_a:
            yield (q, tuple(vs), c)
