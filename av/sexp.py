"""S-expressions shared with the Rust bridge: bare atoms (str), quoted strings (Q), lists (tuple)."""


class Q(str):
    """A quoted string (names, texts). Plain str is a bare atom (tags, numbers)."""
    __slots__ = ()

    def __repr__(self):
        return "Q(%s)" % str.__repr__(self)


_ESC = {'"': '\\"', '\\': '\\\\', '\n': '\\n', '\r': '\\r', '\t': '\\t'}


def render(x):
    out = []
    _render(x, out)
    return ''.join(out)


def _render(x, out):
    if isinstance(x, Q):
        out.append('"')
        for c in x:
            if c in _ESC:
                out.append(_ESC[c])
            elif ord(c) < 0x20:
                out.append('\\u%04x' % ord(c))
            else:
                out.append(c)
        out.append('"')
    elif isinstance(x, str):
        out.append(x)
    elif isinstance(x, bool):
        out.append('true' if x else 'false')
    elif isinstance(x, int):
        out.append(str(x))
    else:
        out.append('(')
        first = True
        for y in x:
            if not first:
                out.append(' ')
            first = False
            _render(y, out)
        out.append(')')


def parse(s):
    pos = 0
    n = len(s)
    stack = [[]]
    while pos < n:
        c = s[pos]
        if c in ' \t\r\n':
            pos += 1
        elif c == '(':
            stack.append([])
            pos += 1
        elif c == ')':
            done = tuple(stack.pop())
            if not stack:
                raise ValueError('unbalanced )')
            stack[-1].append(done)
            pos += 1
        elif c == '"':
            pos += 1
            buf = []
            while True:
                if pos >= n:
                    raise ValueError('unterminated string')
                c = s[pos]
                pos += 1
                if c == '"':
                    break
                if c == '\\':
                    e = s[pos]
                    pos += 1
                    if e == 'n':
                        buf.append('\n')
                    elif e == 'r':
                        buf.append('\r')
                    elif e == 't':
                        buf.append('\t')
                    elif e == 'u':
                        buf.append(chr(int(s[pos:pos + 4], 16)))
                        pos += 4
                    else:
                        buf.append(e)
                else:
                    buf.append(c)
            stack[-1].append(Q(''.join(buf)))
        else:
            start = pos
            while pos < n and s[pos] not in ' \t\r\n()"':
                pos += 1
            stack[-1].append(s[start:pos])
    if len(stack) != 1 or len(stack[0]) != 1:
        raise ValueError('expected exactly one expression')
    return stack[0][0]
