"""C13 - a proof outline cannot make an unjustified claim available as an axiom."""
import itertools
import random
import re

import z3

from . import bridge as bridge_mod
from . import driver
from .c02 import real_predmap, renamed_names, run_task
from .checks_common import generic_replay
from .fol import text as ftext
from .refext import closure, reference, replace_placeholders, ug_info
from .sem import asp_preds, fol_preds, fol_size, free_vars
from .sexp import Q, render
from .tasks import *

PROPERTY = 'C13'
LEVEL = 'translation_validation'
HARD_TIMEOUT = 300

BASE_TASKS = [
    ('base', 'program', 'p(X) :- q(X), X > 0.', 'p(X) :- q(X), not r(X). r(X) :- q(X), X <= 0.', 'input: q/1. output: p/1.'),
    ('placeholder', 'program', 'p(X) :- q(X), X > n.', 'p(X) :- q(X), not r(X). r(X) :- q(X), X <= n.',
     'input: n -> integer. input: q/1. output: p/1. assumption: n >= 0.'),
    ('spec', 'spec', 'assumption: forall X (q(X) -> exists N$i (X = N$i)). spec(forward): forall X (p(X) -> q(X)). '
     'spec: forall X (p(X) <-> q(X) and X > 0).', 'p(X) :- q(X), X > 0.', 'input: q/1. output: p/1.'),
    ('clash', 'program', 'p(X) :- q(X), not r(X). r(X) :- q(X), X <= 0.', 'p(X) :- q(X), not r(X). r(X) :- q(X), X < 1.',
     'input: q/1. output: p/1.'),
]

LEMMAS = [
    'lemma: forall X (p(X) -> q(X)).',
    'lemma(forward): forall X (p(X) -> X > 0).',
    'lemma(backward): forall X (p(X) and q(X) -> not X <= 0).',
    'lemma: p(X) -> q(X).',
    'lemma(forward): p(X) and X = Y$i -> Y$i > 0.',
    'lemma: forall X (d(X) -> q(X)).',
    'lemma(backward): exists X (q(X)) or forall Y (not p(Y)).',
    # claims that do NOT follow from the premises: if one of them is visible too early, a problem gains an unjustified axiom
    'lemma: forall X (q(X) -> X > 0).',
    'lemma(forward): exists X (q(X) and X < 0).',
    'lemma(backward): forall X Y (q(X) and q(Y) -> X = Y).',
    'lemma: forall X (u(X) -> q(X)).',
    'lemma: forall X (p(X) -> not not X > n).',
    'lemma(backward): not exists X (p(X) and not X > n) or n < 0.',
]
DEFINITIONS = [
    'definition: forall X (d(X) <-> q(X) and X > 0).',
    'definition(forward): forall X (e(X) <-> d(X) or p(X)).',
    'definition(backward): forall X Y (f(X, Y) <-> q(X) and q(Y) and X < Y).',
    'definition: forall X$i (g(X$i) <-> q(X$i) and X$i > 2).',
    'definition: forall X (h(X) <-> exists Y (q(Y) and Y > X)).',
]
INDUCTIVE = [
    'inductive-lemma: forall N$i (N$i >= 0 -> (q(N$i) -> N$i >= 0)).',
    'inductive-lemma(forward): forall N$i X (N$i >= 1 -> (p(X) and X = N$i -> q(N$i))).',
    'inductive-lemma: forall N$i (N$i >= 0 -> (q(N$i) or exists N$i (not q(N$i)) or forall X (not q(X)))).',
    'inductive-lemma(backward): forall N$i (N$i >= -3 -> (p(N$i) -> N$i > 0)).',
    'inductive-lemma: N$i >= 2 -> (p(N$i) -> q(N$i + 0)).',
    'inductive-lemma: forall N$i Y (N$i >= 0 -> (Y = N$i + N$i -> exists M$i (Y = M$i))).',
    # a general variable with the name of the induction variable, listed first / left free
    'inductive-lemma: forall N N$i (N$i >= 0 -> (q(N) and N = N$i -> N$i >= 0 and q(N$i))).',
    'inductive-lemma(forward): forall N$i (N$i >= 1 -> (p(N) -> N != N$i or q(N$i))).',
    'inductive-lemma: forall N$i N (N$i >= 0 -> (s(N, N$i) -> s(N$i, N))).',
    # the induction variable re-bound inside the body (negatively and positively placed) next to free occurrences: the base
    # and step instances must leave the inner binder alone
    'inductive-lemma: forall N$i (N$i >= 0 -> ((exists N$i q(N$i)) -> (N$i < 0 or exists X p(X)))).',
    'inductive-lemma(forward): forall N$i (N$i >= 1 -> ((forall N$i (q(N$i) -> N$i > 3)) and q(N$i) -> exists N$i (p(N$i) and N$i > 3))).',
    'inductive-lemma: forall N$i (N$i >= 0 -> q(N$i)).',
    'inductive-lemma(forward): forall N$i (N$i >= 5 -> not q(N$i)).',
]
# definitions violating exactly one acceptance condition each (expected: the task is refused)
BAD_DEFINITIONS = [
    ('duplicate variables', 'definition: forall X X (d(X) <-> q(X)).'),
    ('non-variable argument', 'definition: forall X (d(X, 1) <-> q(X)).'),
    ('variable list mismatch', 'definition: forall X Y (d(X) <-> q(X)).'),
    ('argument not quantified', 'definition: forall X (d(X, Y) <-> q(X)).'),
    ('taken predicate (task)', 'definition: forall X (p(X) <-> q(X)).'),
    ('taken predicate (input)', 'definition: forall X (q(X) <-> X > 0).'),
    ('free variable in body', 'definition: forall X (d(X) <-> q(X) and X > Y).'),
    ('undefined body predicate', 'definition: forall X (d(X) <-> zzz(X)).'),
    ('recursive definition', 'definition: forall X (d(X) <-> q(X) or d(X)).'),
    ('not an equivalence', 'definition: forall X (d(X) -> q(X)).'),
    ('not universally quantified', 'definition: d <-> exists X q(X).'),
    ('head is not an atom', 'definition: forall X (not d(X) <-> q(X)).'),
    ('repeated argument', 'definition: forall X (d(X, X) <-> q(X)).'),
    ('sort mismatch in argument', 'definition: forall X$i (d(X) <-> q(X$i)).'),
]
# direction annotations must not open a loophole: a predicate defined by an earlier outline entry (in whatever direction)
# is not fresh any more, and a body may only mention predicates that are already known
DIRS = ['', '(forward)', '(backward)']
BAD_DIRECTION_MIXES = []
for d1 in DIRS:
    for d2 in DIRS:
        BAD_DIRECTION_MIXES.append(('defined twice %s then %s' % (d1 or '(universal)', d2 or '(universal)'),
                                    'definition%s: forall X (d(X) <-> q(X)). definition%s: forall X (d(X) <-> not q(X)).' % (d1, d2)))
for d1, d2, d3 in (('(forward)', '', '(backward)'), ('(backward)', '', '(forward)'), ('', '(forward)', '(backward)'),
                   ('(forward)', '(backward)', '')):
    BAD_DIRECTION_MIXES.append(('cycle through directions %s %s %s' % (d1, d2, d3),
                                'definition%s: forall X (a(X) <-> p(X)). definition%s: forall X (b(X) <-> not a(X)). '
                                'definition%s: forall X (a(X) <-> b(X)).' % (d1, d2, d3)))
GOOD_DIRECTION_MIXES = [
    ('chain across directions', 'definition(forward): forall X (a(X) <-> p(X)). definition(backward): forall X (b(X) <-> a(X) or q(X)). '
     'definition: forall X (c(X) <-> b(X) and not a(X)).'),
]

BAD_AFTER = [
    ('later-defined predicate', 'definition: forall X (e(X) <-> d(X)). definition: forall X (d(X) <-> q(X)).'),
    ('defined twice', 'definition: forall X (d(X) <-> q(X)). definition: forall X (d(X) <-> p(X)).'),
    # predicates are symbol AND arity: a known symbol at another arity is still undefined in a body (seed C13-16: the body check
    # compared names only, so a self-recursive d/2 after d/1 - an inconsistent axiom - was accepted)
    ('recursive definition at another arity of a defined symbol',
     'definition: forall X (d(X) <-> q(X)). definition: forall X Y (d(X, Y) <-> not d(X, Y)).'),
    ('undefined body predicate, homonym of an input at another arity', 'definition: forall X (d(X) <-> q(X, X)).'),
    ('undefined body predicate, homonym of an output at another arity', 'definition: forall X (d(X) <-> q(X) and not p).'),
    ('undefined body predicate, homonym of an earlier definition at another arity',
     'definition: forall X (d(X) <-> q(X)). definition: forall X (e(X) <-> d(X, X) or d).'),
]


def generate(tier, seed):
    rnd = random.Random(seed)
    outlines = []
    for e in LEMMAS + DEFINITIONS[:1] + INDUCTIVE:
        outlines.append(('single', e if 'd(X)' not in e or e.startswith('definition') else DEFINITIONS[0] + ' ' + e))
    pool = LEMMAS + INDUCTIVE
    n = 30 if tier == 'quick' else 2500
    for _ in range(n):
        k = rnd.choice([2, 3, 4])
        defs = rnd.sample(DEFINITIONS, rnd.choice([0, 1, 2, 3]))
        defs.sort(key=DEFINITIONS.index)      # e uses d
        if any('e(X)' in d for d in defs) and DEFINITIONS[0] not in defs:
            defs.insert(0, DEFINITIONS[0])
        entries = rnd.sample(pool, k)
        if any('d(X)' in e for e in entries) and DEFINITIONS[0] not in defs:
            defs.insert(0, DEFINITIONS[0])
        seq = defs + entries
        # definitions may also come between lemmas
        if defs and rnd.random() < 0.5:
            seq = entries[:1] + defs + entries[1:]
            if any('d(X)' in e for e in entries[:1]):
                seq = defs + entries
        outlines.append(('sequence', ' '.join(seq)))
    # every sequence of directions of length 2 and 3, with lemmas none of which follows from the premises (nor from the
    # earlier ones): whichever bookkeeping decides which lemma is visible where, a slip shows as an unjustified axiom
    dirs = {'f': '(forward)', 'b': '(backward)', 'u': ''}
    for k in (2, 3):
        for seq in itertools.product('fbu', repeat=k):
            po = ' '.join('lemma%s: forall X (q(X) -> X > %d).' % (dirs[d], 10 * (i + 1)) if not (k == 3 and i == 1)
                          else 'inductive-lemma%s: forall N$i (N$i >= 0 -> (q(N$i) -> N$i > %d)).' % (dirs[d], 10 * (i + 1))
                          for i, d in enumerate(seq))
            outlines.append(('direction-sequences', po))
    items = []
    for fam, po in list(outlines):
        if ' n)' in po or 'n <' in po or '> n' in po:
            outlines.remove((fam, po))
            items.append({'family': 'outline-' + fam, 'task': BASE_TASKS[1], 'outline': po, 'label': '%s + %s' % (BASE_TASKS[1][0], po[:160])})
    for fam, po in outlines:
        for t in (BASE_TASKS if tier == 'thorough' else BASE_TASKS[:3] if fam == 'single' else BASE_TASKS[:1] if fam == 'direction-sequences'
                  else [rnd.choice(BASE_TASKS)]):
            items.append({'family': 'outline-' + fam, 'task': t, 'outline': po, 'label': '%s + %s' % (t[0], po[:160])})
    for name, po in GOOD_DIRECTION_MIXES:
        items.append({'family': 'definition-acceptance', 'task': BASE_TASKS[0], 'outline': po, 'expect_refused': None,
                      'label': 'good definitions (%s): %s' % (name, po)})
    for name, po in BAD_DEFINITIONS + BAD_AFTER + BAD_DIRECTION_MIXES:
        items.append({'family': 'definition-acceptance', 'task': BASE_TASKS[0], 'outline': po, 'expect_refused': name,
                      'label': 'bad definition (%s): %s' % (name, po)})
    # a task whose two programs share the private predicate r/1: the program's copy is emitted under another name, and
    # neither name may be (re)defined by the outline - such a definition would be an axiom about the program's predicate
    # (the emitted name of the renamed copy is not assumed here: the `emitted-names-taken` items below read it off the problems)
    for name, po in (('taken predicate (shared private)', 'definition: forall X (r(X) <-> q(X)).'),):
        items.append({'family': 'definition-acceptance', 'task': BASE_TASKS[3], 'outline': po, 'expect_refused': name,
                      'label': 'bad definition on a task with a shared private predicate (%s): %s' % (name, po)})
    extra = [('input-only-in-assumption', 'program', 'p(X) :- q(X).', 'p(X) :- q(X), X > 1.',
              'input: q/1. input: r/1. output: p/1. assumption: exists X r(X).'),
             ('declared-but-unused', 'program', 'p(X) :- q(X).', 'p(X) :- q(X), not not q(X).', 'input: q/1. input: u/2. output: p/1. output: w/0.')]
    for t in BASE_TASKS + extra:
        items.append({'family': 'definition-acceptance', 'kind': 'emitted-names-taken', 'task': t,
                      'label': 'every predicate emitted for task %s is taken' % t[0]})
    for po in DEFINITIONS:
        pre = DEFINITIONS[0] + ' ' if 'd(X)' in po and po != DEFINITIONS[0] else ''
        items.append({'family': 'definition-acceptance', 'task': BASE_TASKS[0], 'outline': pre + po, 'expect_refused': None,
                      'label': 'good definition: %s' % po})
    for t, po in ((BASE_TASKS[0], DEFINITIONS[0] + ' ' + LEMMAS[5] + ' ' + INDUCTIVE[0]), (BASE_TASKS[2], LEMMAS[1] + ' ' + LEMMAS[2]),
                  (BASE_TASKS[3], 'lemma(forward): forall X (q(X) -> X > 10). lemma: forall X (q(X) -> X > 20).'), (BASE_TASKS[0], BAD_DEFINITIONS[0][1])):
        items.append({'family': 'cli-agreement', 'task': t, 'outline': po, 'cli': True, 'label': 'cli %s + %s' % (t[0], po[:80])})
    return items


def strip_foralls(f):
    vs = []
    while f[0] == 'forall':
        vs += [(str(n), str(s)) for (n, s) in f[1]]
        f = f[2]
    return vs, f


def induction_parts(f):
    """closed inductive lemma -> (N, n, F) or None"""
    vs, body = strip_foralls(f)
    if body[0] != 'imp':
        return None
    g = body[1]
    if g[0] != 'cmp' or len(g) != 4 or str(g[2]) != '>=' or g[1][0] != 'ivar' or g[3][0] != 'num':
        return None
    return str(g[1][1]), int(g[3][1]), body[2]


def check_emitted_names_taken(b, item):
    """Whatever predicate name the problems of the outline-less task use (however anthem chose it), an outline may not
    define it: the definition would become an axiom about a predicate of the task."""
    task = item['task']
    req0, resp0 = run_task(b, task, 'universal', 'independent', False, False, outline='')
    if resp0[0][:1] == ('refused',):
        return [{'family': item['family'], 'key': item['label'], 'input': item['label'], 'verdict': 'skipped'}]
    emitted = set()
    for p in parse_problems(resp0[0]):
        for f in p['formulas']:
            emitted |= fol_preds(f['formula'])
    # ... and the predicates the user guide declares, whether or not any formula mentions them
    inputs, outputs, _, _, _ = ug_info(b.call('parse_ug', Q(task[4]))[0])
    emitted |= set(inputs) | set(outputs)
    out = []
    for (n, a) in sorted(emitted):
        vs = ' '.join('X%d' % i for i in range(a))
        head = '%s(%s)' % (n, ', '.join('X%d' % i for i in range(a))) if a else n
        po = 'definition: %s(%s <-> #true).' % ('forall %s ' % vs if a else '', head)
        req, resp = run_task(b, task, 'universal', 'independent', False, False, outline=po)
        r = {'family': item['family'], 'input_key': item['label'], 'key': '%s#%s/%d' % (item['label'], n, a),
             'input': '%s with outline `%s`' % (item['label'], po), 'nontrivial': True,
             'obligation': 'an outline that defines a predicate the task\'s problems already use is refused'}
        if resp[0][:1] == ('refused',):
            r.update(verdict='held-concrete', output='refused')
        else:
            r.update(verdict='violation-concrete', signature='definition-acceptance:emitted predicate redefined',
                     detail='%s/%d occurs in the problems of the task, yet an outline defining it is accepted' % (n, a),
                     replay={'request': render(req), 'expected': render(resp)})
        out.append(r)
    return out


def check_cli(b, item):
    from .c03 import flags_of
    from . import cliagree
    name, kind, left, right, ug = item['task']
    po = item['outline']
    out = []
    for direction, dec, simp, eqb in (('universal', 'sequential', True, True), ('backward', 'independent', False, False)):
        req = ('external_task', Q(kind), Q(left), Q(right), Q(ug), Q(po), Q(direction), Q(dec), Q(str(simp).lower()), Q(str(eqb).lower()), Q('false'))
        first = 'zz_first.lp' if kind == 'program' else 'zz_first.spec'
        out.append(cliagree.verify(b, item['family'], '%s#%s#%s-%s' % (name, po[:60], direction, dec), 'external',
                                   {first: left + '\n', 'aa_second.lp': right + '\n', 'mm_guide.ug': ug + '\n', 'kk_outline.po': po + '\n'},
                                   [first, 'aa_second.lp', 'mm_guide.ug', 'kk_outline.po'], req, flags_of(direction, dec, simp, eqb)))
    return out


def check_item(item):
    b = bridge_mod.get()
    if item.get('cli'):
        return check_cli(b, item)
    if item.get('kind') == 'emitted-names-taken':
        return check_emitted_names_taken(b, item)
    task = item['task']
    name, kind, left, right, ug = task
    po = item['outline']
    base = {'family': item['family'], 'input_key': item['label'], 'twin': item.get('twin', False)}
    out = []
    ug_tree = b.call('parse_ug', Q(ug))[0]
    right_tree = b.call('parse_program', Q(right))[0]
    left_tree = b.call('parse_program', Q(left))[0] if kind == 'program' else b.call('parse_spec', Q(left))[0]
    po_tree = b.call('parse_spec', Q(po))[0]
    inputs, outputs, placeholders, assumptions, _ = ug_info(ug_tree)
    public = set(inputs) | set(outputs)
    right_private = {p for p in asp_preds(right_tree) if p not in public}
    if kind == 'program':
        left_private = {p for p in asp_preds(left_tree) if p not in public}
    else:
        lp = set()
        for a in left_tree[1:]:
            lp |= fol_preds(a[4])
        left_private = {p for p in lp if p not in public}
    req, resp = run_task(b, task, 'universal', 'independent', False, False, outline=po)
    refused = resp[0][:1] == ('refused',)
    if 'expect_refused' in item:
        r = dict(base)
        r.update(key=item['label'], input=item['label'], nontrivial=True,
                 obligation='a definition is accepted iff it is a closed equivalence forall V (d(V) <-> B) over distinct variables '
                            'V = the argument list, d fresh, free(B) within V, predicates of B already known')
        want = item['expect_refused'] is not None
        if refused == want:
            r.update(verdict='held-concrete', output='refused' if refused else 'accepted')
        else:
            r.update(verdict='violation-concrete', signature='definition-acceptance:' + str(item['expect_refused']),
                     detail='expected %s, anthem %s' % ('refusal' if want else 'acceptance', 'refused' if refused else 'accepted'),
                     replay={'request': render(req), 'expected': render(resp)})
        return [r]
    if refused:
        r = dict(base)
        r.update(key=item['label'], input=item['label'], verdict='skipped', detail='task refused: %s' % str(resp[0][1])[:300])
        return [r]
    problems = parse_problems(resp[0])
    aliases = symbol_aliases(problems, (left, right, ug, po))
    entries = [(e[1], e[2], str(e[3]), replace_placeholders(e[4], placeholders)) for e in po_tree[1:]]

    for d in ('forward', 'backward'):
        lemmas = [e for e in entries if e[0] in ('lemma', 'inductive-lemma') and e[1] in ('universal', d)]
        defs = [e for e in entries if e[0] == 'definition' and e[1] in ('universal', d)]
        probs = [(k, p) for k, p in enumerate(problems) if direction_of(p) == d]
        pos_of = {}
        for k, p in probs:
            m = re.fullmatch(r'%s_outline_(\d+)_(\d+)' % d, p['name'])
            if m:
                pos_of.setdefault(int(m.group(1)), []).append((int(m.group(2)), k))
        # structure: one group of problems per lemma, 1 conjecture problem for a lemma, 2 for an inductive lemma
        expect_counts = [1 if e[0] == 'lemma' else 2 for e in lemmas]
        got_counts = [len(pos_of.get(i, [])) for i in range(len(lemmas))]
        r = dict(base)
        r.update(key=item['label'] + '#structure#' + d, input=item['label'] + ' [' + d + ' structure]', nontrivial=True,
                 obligation='one outline problem per lemma (two per inductive lemma), in outline order')
        if expect_counts != got_counts or len(pos_of) != len(lemmas):
            r.update(verdict='violation-concrete', signature='outline-structure',
                     detail='expected conjecture problems per lemma %s, got %s' % (expect_counts, got_counts),
                     replay={'request': render(req), 'expected': render(resp)})
            out.append(r)
            continue
        r.update(verdict='held-concrete')
        out.append(r)

        def mk(kw):
            ctx = AliasCtx(aliases, **kw)
            clash = left_private & right_private
            ref = reference(ctx, kind, left_tree, right_tree, ug_tree,
                            lambda n, a: ctx.pred('R:' + n, a) if (n, a) in clash else ctx.pred(n, a))
            pm = real_predmap(ctx, renamed_names(problems, left_private, right_private, public))
            return ctx, ref[d][0], pm

        # (a) visibility, problem by problem
        for k, p in probs:
            m = re.fullmatch(r'%s_outline_(\d+)_(\d+)' % d, p['name'])
            # justified at this point: for the conjecture problems of lemma i the lemmas before i (outline order, whatever
            # the order in which the problems are emitted - a lemma may be used wherever its own proof does not depend on
            # the user, i.e. no circularity); for a main problem every lemma of the direction
            established = list(range(int(m.group(1)))) if m else list(range(len(lemmas)))
            r = dict(base)
            r.update(key=item['label'] + '#visible#' + p['name'], input='%s [%s]' % (item['label'], p['name']),
                     obligation='forall I: (premises of the direction and accepted definitions and the lemmas whose conjecture '
                                'problems were all emitted earlier) -> every axiom of this problem',
                     output='%d axioms' % sum(1 for f in p['formulas'] if f['role'] == 'axiom'))

            def build(kw, p=p, established=established):
                ctx, premises, pm = mk(kw)
                allowed = list(premises) + [closure(ctx, e[3]) for e in defs] + [closure(ctx, lemmas[i][3]) for i in established]
                if item.get('wrong') == 'forget-lemmas':
                    allowed = list(premises)
                axioms = [ctx.cl(f['formula'], predmap=pm) for f in p['formulas'] if f['role'] == 'axiom']
                return ctx.order_axioms() + ctx.symbol_facts(), [(z3.And(*allowed), z3.And(*(allowed + axioms)))]
            res = driver.solve_equiv(build, item.get('timeout_ms', 6000), ({}, {'relativize_int': True}, {'abstract_order': True}))
            r.update(verdict=res['verdict'], ms=res['ms'], nontrivial=True, queries=res.get('queries'))
            if res['verdict'] == 'sat':
                r['signature'] = 'outline-visibility'
                r['detail'] = 'problem %s uses an axiom that is not justified at this point: %s ; countermodel: %s' % (
                    p['name'], '; '.join(f['tptp'] for f in p['formulas'] if f['role'] == 'axiom')[:900],
                    driver.model_text(res['model'], 700))
                r['replay'] = {'request': render(req), 'expected': render(resp), 'smt2': res['smt2']}
            elif res['verdict'] == 'unknown':
                r['detail'] = res.get('reason')
            out.append(r)

        # (b) conjectures of the outline problems
        for i, e in enumerate(lemmas):
            group = sorted(pos_of[i])
            closed = e[3]
            for j, k in group:
                p = problems[k]
                conj = [f for f in p['formulas'] if f['role'] == 'conjecture']
                r = dict(base)
                r.update(key=item['label'] + '#conj#' + p['name'], input='%s [%s conjecture]' % (item['label'], p['name']),
                         output=conj[0]['tptp'][:300] if conj else '')
                if e[0] == 'lemma':
                    r['obligation'] = 'forall I: the conjecture is the universal closure of the lemma'
                    parts = None
                else:
                    parts = induction_parts(closure_tree(closed))
                    r['obligation'] = ('forall I: conjecture 0 <-> closure of F[N:=n]; conjecture 1 <-> closure of '
                                       '(N >= n and F -> F[N:=N+1])')
                    if parts is None:
                        r.update(verdict='violation-concrete', signature='inductive-lemma-shape',
                                 detail='accepted inductive lemma is not of the form forall.. (N$i >= n -> F): %s' % ftext(closed),
                                 replay={'request': render(req), 'expected': render(resp)})
                        out.append(r)
                        continue

                def build(kw, conj=conj, e=e, j=j, parts=parts, closed=closed):
                    ctx, premises, pm = mk(kw)
                    real = z3.And(*[ctx.cl(f['formula'], predmap=pm) for f in conj])
                    if e[0] == 'lemma':
                        ref = closure(ctx, closed)
                    else:
                        N, n, F = parts
                        fv = sorted(free_vars(F) - {(N, 'i')})
                        env, bound = {}, []
                        for (vn, vs) in fv:
                            c = ctx.fresh_const('%s$%s' % (vn, vs), ctx.sort_of(vs))
                            env[(vn, vs)] = c
                            bound.append(c)
                        if j == 0:
                            env0 = dict(env)
                            env0[(N, 'i')] = z3.IntVal(n + (1 if item.get('wrong') == 'base-off-by-one' else 0))
                            body = ctx.cl(F, env0)
                            ref = z3.ForAll(bound, body) if bound else body
                        else:
                            nv = ctx.fresh_const('N', z3.IntSort())
                            env1 = dict(env)
                            env1[(N, 'i')] = nv
                            env2 = dict(env)
                            env2[(N, 'i')] = nv + 1
                            body = z3.Implies(z3.And(nv >= n, ctx.cl(F, env1)), ctx.cl(F, env2))
                            ref = z3.ForAll(bound + [nv], body)
                    return ctx.order_axioms() + ctx.symbol_facts(), [(real, ref)]
                res = driver.solve_equiv(build, item.get('timeout_ms', 6000), ({}, {'relativize_int': True}, {'abstract_order': True}))
                r.update(verdict=res['verdict'], ms=res['ms'], nontrivial=True, queries=res.get('queries'))
                if res['verdict'] == 'sat':
                    r['signature'] = 'outline-conjecture:' + e[0]
                    r['detail'] = 'conjecture %s ; countermodel: %s' % (conj[0]['tptp'][:600] if conj else '',
                                                                       driver.model_text(res['model'], 700))
                    r['replay'] = {'request': render(req), 'expected': render(resp), 'smt2': res['smt2']}
                elif res['verdict'] == 'unknown':
                    r['detail'] = res.get('reason')
                out.append(r)
    if item.get('twin'):
        want = 'visible' if item.get('wrong') == 'forget-lemmas' else 'conj'
        sat = [r for r in out if ('#' + want + '#') in r['key'] and r.get('verdict') == 'sat']
        return sat[:1] or [r for r in out if ('#' + want + '#') in r['key']][:1]
    return out


def closure_tree(f):
    """syntactic universal closure (outermost block), as a tree"""
    fv = sorted(free_vars(f))
    if not fv:
        return f
    return ('forall', tuple((Q(n), s) for (n, s) in fv), f)


TWINS_EXPECTED = 2


def twins(tier, seed):
    return [
        # the later problems really do use the earlier lemma: a reference that forgets lemmas must be refuted
        {'family': 'twin', 'task': BASE_TASKS[0], 'outline': 'lemma: forall X (q(X) -> X > 0). ' + LEMMAS[1], 'label': 'twin-visibility',
         'wrong': 'forget-lemmas'},
        # a base case taken at n+1 must be noticed
        {'family': 'twin', 'task': BASE_TASKS[0], 'outline': INDUCTIVE[3], 'label': 'twin-base', 'wrong': 'base-off-by-one'},
    ]


def replay(r):
    return generic_replay(r)


def describe(tier):
    return {
        'rule': 'CLI agreement: 4 outlined tasks x 2 flag sets through `anthem verify --equivalence external --save-problems` must print/save byte for byte what the library call returns; for each base task, a definition of every predicate name its outline-less problems use (must be refused); outlines attached to 4 small external-equivalence tasks (program/program, with an integer placeholder, '
                'specification/program, clashing private predicates): every lemma / inductive lemma of the pools alone, seeded '
                'sequences of 2-4 lemmas interleaved with 0-3 definitions (all direction annotations, free variables, induction '
                'variable re-bound inside F, negative n), 16 outlines with a definition violating exactly one acceptance '
                'condition and the accepted controls. Obligations: structure per direction, one visibility obligation per '
                'emitted problem, one conjecture obligation per outline problem, one acceptance obligation per definition case',
        'functions': ['verifying::outline::{ProofOutline::from_specification, GeneralLemma::try_from, CheckInternal::definition, '
                      'CheckInternal::inductive_lemma}', 'verifying::task::external_equivalence::AssembledExternalEquivalenceTask::'
                      'decompose', 'Formula::{substitute, universal_closure, universal_closure_with_quantifier_joining}'],
        'bounds': 'outlines of <=7 entries over the pools; integers unbounded; all interpretations solver-quantified',
        'outside': 'outlines beyond the pools; soundness of the induction schema itself (base and step imply the lemma) is '
                   'ordinary integer induction and is stated, not solved; conservativity of an accepted definition follows from '
                   'its checked shape',
        'assumptions': ['reference premises per direction from av/refext.py', 'semantic substitution (assignment) instead of '
                        'syntactic substitution for the induction obligations', 'classical semantics of av/sem.py', 'z3 verdicts'],
        'trusted_base': ['av/refext.py', 'av/sem.py', 'z3'],
    }
