"""C01 - the tau* theory has exactly the program's here-and-there models."""
import itertools
import random

import z3

from . import asp as A
from . import bridge as bridge_mod
from . import driver
from . import cliagree
from .checks_common import generic_replay
from .fol import text as ftext
from .sem import Ctx, asp_preds, fol_preds, fol_size
from .sexp import Q, render

PROPERTY = 'C01'
LEVEL = 'translation_validation'

S1, S2, S3 = 7000001, 7000003, 7000009          # sentinel numerals: become symbolic Ints in the VC
SENT = (S1, S2, S3)
SHIFT = 1000000                                 # second sentinel assignment for the parametricity re-run

X, Y = A.V('X'), A.V('Y')
LEAVES = [X, Y, A.N(S1), A.S('a'), A.INF, A.SUP]
SMALL = [X, A.N(S1), A.S('a'), A.SUP]
SMALL_C = [X, A.N(3), A.N(-2), A.N(0)]
ADV_NAMES = ['I', 'J', 'K', 'I1', 'J1', 'Z', 'Z1', 'Z2', 'V', 'V1', 'V2', 'V01', 'Q', 'R', 'Q1', 'N0', 'K1', 'R1']


def skeletons(T):
    """Programs placing the term T at every kind of position."""
    q = A.atom
    return [
        ('head-basic', A.rule(q('p', T))),
        ('head-basic-body', A.rule(q('p', T), [q('q', X)])),
        ('head-choice', A.rule(A.choice(q('p', T)), [q('q', X)])),
        ('head-arity2', A.rule(q('p', X, T), [q('q', X, Y)])),
        ('head-choice-arity2', A.rule(A.choice(q('p', T, Y)), [q('q', Y)])),
        ('body-pos', A.rule(q('p', X), [q('q', T)])),
        ('body-not', A.rule(q('p', X), [q('q', X), 'not ' + q('q', T)])),
        ('body-notnot', A.rule(q('p', X), [q('q', X), 'not not ' + q('q', T)])),
        ('body-eq', A.rule('p', ['%s = %s' % (A.tt(X), A.tt(T)), q('q', X)])),
        ('body-eq-lhs', A.rule(q('p', Y), ['%s = %s' % (A.tt(T), A.tt(Y))])),
        ('constraint-less', A.rule(None, ['%s < %s' % (A.tt(T), A.tt(Y)), q('q', Y)])),
        ('body-geq', A.rule(q('p', X), [q('q', X), '%s >= %s' % (A.tt(T), A.tt(Y)), q('q', Y)])),
        ('body-neq', A.rule(A.choice('p'), ['%s != %s' % (A.tt(T), 'a')])),
        ('body-greater', A.rule(q('p', X), [q('q', X), '%s > %s' % (A.tt(Y), A.tt(T)), q('q', Y)])),
        ('body-leq', A.rule(None, [q('q', X), '%s <= %s' % (A.tt(T), A.tt(X))])),
        ('constraint-arity2', A.rule(None, [q('q', T, T)])),
        ('prop-choice', A.rule(A.choice('p'), ['not ' + q('q', T)])),
    ]


# program variables V<n> with different digit counts (the fresh head variables must be chosen numerically, not lexicographically)
VNAME_PROGRAMS = ['p(V9) :- q(V9, V10).', 'p(V99, X) :- q(V99, V100, X).', 'p(V10) :- q(V9, V10), not r(V2).', '{p(V9, V8)} :- q(V10, V9), r(V8).',
                  'p(V2, V3) :- q(V10), r(V2, V3).', ':- q(V9, V10). p(V10) :- q(V10, V9).']


CLI_PROGRAMS = ['p(X) :- q(X).', 'p(X + 1) :- q(X), not r(X, X).', '{p(X)} :- q(X), X = 1..3.', ':- p(X), q(X), X != a.',
                'p(1..3). q(X) :- p(X), not not r(X).', 'p(-X) :- q(X). p(X / 2) :- q(X), X \\ 2 = 0.', 'p(a). q(b) :- p(a), a < b.',
                's :- not s. t(X, Y) :- r(X, Y), X < Y, not p(Y).', 'p(X) :- X = 1..n, not q(X).', 'q(#inf). q(#sup) :- q(#inf).',
                'p(2 * 3 / 2). r(3 * 3 \\ 2).', 'p(Z) :- q(-Z), r(Z1, -Z1).',
                'p(X - (Y - 1)) :- q(X, Y).', 'p(X - (Y + 1), X + (Y - 2)) :- q(X, Y), X - (Y - 1) > 0.', 'p(X * (Y * 2), X / (Y / 2)) :- q(X, Y).',
                'p(-(X - 1), -(-X)) :- q(X), X \\ (2 \\ 3) = (X \\ 2) \\ 3.', 'p((1..2) + (1..2), X - (1..3)) :- q(X).']


def generate(tier, seed):
    rnd = random.Random(seed)
    items = []

    def add(fam, prog, sentinels=SENT):
        items.append({'family': fam, 'program': prog, 'sentinels': list(sentinels)})

    levels = A.terms_up_to(2, LEAVES, SMALL)
    levels_c = A.terms_up_to(2, LEAVES, SMALL_C)
    # depth 0/1 terms at every position (symbolic numerals)
    for T in levels[0] + levels[1]:
        for fam, prog in skeletons(T):
            add('depth<=1/' + fam, prog)
    # depth 1 with concrete numerals (boundary pool) for the operators that branch on sign/zero
    for T in levels_c[1]:
        if T[0] in ('div', 'mod', 'interval', 'mul', 'neg'):
            for fam, prog in skeletons(T)[:8]:
                add('depth1-concrete/' + fam, prog, ())
    # depth 2: exhaustive at two positions, seeded elsewhere
    d2 = levels[2]
    n2 = 350 if tier == 'quick' else len(d2)
    sample = d2 if tier == 'thorough' else rnd.sample(d2, n2)
    for T in sample:
        sk = skeletons(T)
        picks = sk if tier == 'thorough' else [sk[0], sk[5], rnd.choice(sk)]
        for fam, prog in picks:
            add('depth2/' + fam, prog)
    # adversarial variable names colliding with tau*'s fresh names
    adv_terms = [t for t in levels[1] if t[0] != 'neg'] + rnd.sample(d2, 60 if tier == 'quick' else 600)
    for T in adv_terms:
        n1, n2_ = rnd.sample(ADV_NAMES, 2)
        m = {'X': n1, 'Y': n2_}
        T2 = A.rename(T, m)
        sk = skeletons(T2)
        for fam, prog in rnd.sample(sk, 3):
            for old, new in m.items():
                prog = prog.replace('(%s)' % old, '(%s)' % new).replace('(%s,' % old, '(%s,' % new) \
                    .replace(', %s)' % old, ', %s)' % new).replace(' %s ' % old, ' %s ' % new) \
                    .replace('%s =' % old, '%s =' % new).replace('= %s' % old, '= %s' % new).replace('< %s' % old, '< %s' % new) \
                    .replace('>= %s' % old, '>= %s' % new)
            inj = A.rule(A.atom('r', A.V('V1'), A.V('V3')), [A.atom('s', A.V('V2'), A.V('Z1'), A.V('I'))])
            add('adversarial-names/' + fam, prog + '\n' + inj)
    # hand-written adversarial programs
    hand = [
        'p(I/J) :- q(I, J, Q, R), K = I..J.',
        'p(Z, Z1) :- q(Z + Z1), not r(Z1 .. Z), Z2 = Z \\ Z1.',
        '{p(V1, V2)} :- q(V1 * V2), V = V1 - V2.',
        'p(V) :- q(V). p(V1, V2) :- q(V1), q(V2).',
        'p(V01) :- q(V01). r(X, Y) :- q(X), q(Y).',
        'p(Q / R) :- q(Q, R). p(Q1 \\ R1) :- q(Q1, R1, Q, R).',
        'p(I .. J) :- q(I, J, K). :- p(K), K = I + J, q(I, J, K).',
        'p((I/J)/K) :- q(I, J, K).',
        'p((Q \\ R) / Q1) :- q(Q, R, Q1).',
        'p(-(-I)) :- q(I). p(-(I..J)) :- q(I,J).',
        'p(I) :- q(I), not not q(I1), not q(I + I1).',
        '{p(K..K1)} :- q(K, K1), not not p(K).',
        ':- p(X), X != X. :- not not p(1..2).',
        'p(#inf..#sup). p(a..b). p(a+1). p(-a).',
        'p(1..3, 2..4). {q(1..2, a)}.',
        'p(X) :- X = 1..3, X != 2. q(X) :- 1..3 = X.',
        'p(5/2). p(-5/2). p(5\\2). p(-5\\2). p(5/0). p(5\\0). p(5/-2). p(5\\-2).',
        'p(X/Y) :- X = 7, Y = 2. p(X\\Y) :- X = -7, Y = 2.',
        'p :- not p. q :- not not q. {r}. :- r, not q.',
        'p(X, Y) :- q(X; Y).' if False else 'p(X, Y) :- q(X), q(Y); not r(X, Y).',
        # variable indices at the limit of usize feed the global-variable counter
        'p(V18446744073709551615, V1) :- q(V18446744073709551615, V1).',
        'p(V18446744073709551614, X) :- q(V18446744073709551614), r(X, V0).',
        'p(V9223372036854775807) :- q(V9223372036854775807, V9223372036854775808).',
        'p(V00000000000000000001, V1) :- q(V00000000000000000001, V1, V01).',
    ]
    for h in hand:
        add('hand-adversarial', h, ())
    if tier == 'thorough':
        d3 = A.terms_up_to(3, LEAVES, SMALL)[3]
        for T in rnd.sample(d3, 3000):
            fam, prog = rnd.choice(skeletons(T))
            add('depth3-seeded/' + fam, prog)
    # unparenthesised text: the parser must build the tree the language's precedence prescribes
    leaves = [X, Y, A.N(S1), A.N(2), A.S('a')]
    for _ in range(120 if tier == 'quick' else 3000):
        T = A.random_term(rnd, rnd.choice([2, 3, 3]), leaves)
        if T[0] in ('v', 'n', 's'):
            continue
        kind = rnd.randrange(3)
        txt = A.tt_min(T)
        prog = ['p(%s) :- q(X, Y).' % txt, 'p(X) :- q(%s, Y).' % txt, ':- q(X, Y), X < %s.' % txt][kind]
        items.append({'family': 'precedence-unparenthesised', 'program': prog, 'sentinels': list(SENT), 'expected_term': A.to_sexp(T)})
    # two-rule programs combining skeletons
    n = 150 if tier == 'quick' else 2500
    for _ in range(n):
        T1, T2 = rnd.choice(levels[1]), rnd.choice(levels[1] + levels[0])
        (f1, p1), (f2, p2) = rnd.choice(skeletons(T1)), rnd.choice(skeletons(T2))
        add('two-rules', p1 + '\n' + p2)
    for prog in CLI_PROGRAMS:
        items.append({'family': 'cli-agreement', 'program': prog, 'cli': True})
    for prog in VNAME_PROGRAMS:
        add('hand-adversarial', prog, ())
    return items


def abstract_numerals(s, sentinels):
    out = s
    for i, n in enumerate(sentinels):
        out = out.replace(str(n), '#S%d' % i)
    return out


def rule_goal(ctx, formula, rule, wrong=None):
    goals = []
    for w in ('h', 't'):
        lhs = ctx.ht(formula, w)
        rhs = ctx.rule_ref(rule, w) if wrong is None else wrong(ctx, rule, w)
        goals.append(lhs != rhs)
    return z3.Or(*goals)


def side_conditions(ctx, preds):
    return ctx.order_axioms() + ctx.subset_conditions(sorted(preds)) + ctx.symbol_facts()


def check_program(b, item, op='tau_star', timeout_ms=6000):
    """Shared by C01/C08: returns (program, formulas per rule, text, sentinels actually symbolic, events)."""
    prog = item['program']
    sent = list(item.get('sentinels') or [])
    req = (op, Q(prog))
    resp = b.call(*req)
    events = []
    if sent and any(str(n) in prog for n in sent):
        prog2 = prog
        for n in sent:
            prog2 = prog2.replace(str(n), str(n + SHIFT))
        resp2 = b.call(op, Q(prog2))
        a1 = abstract_numerals(render(resp), sent)
        a2 = abstract_numerals(render(resp2), [n + SHIFT for n in sent])
        if a1 != a2:
            events.append('not parametric in its numerals: numerals kept concrete')
            sent = []
    else:
        sent = []
    return req, resp, sent, events


def check_item(item):
    b = bridge_mod.get()
    if item.get('cli'):
        r = cliagree.translate(b, item['family'], item['program'], item['program'], 'tau-star')
        return [r] if r else []
    prog = item['program']
    base = {'family': item['family'], 'key': prog, 'input': prog, 'twin': item.get('twin', False)}
    try:
        req, resp, sent, events = check_program(b, item, 'tau_star')
    except bridge_mod.BridgePanic as e:
        r = dict(base)
        r.update(verdict='violation-concrete', signature='tau-star-panic', detail='panic: %s' % e,
                 replay={'request': render(('tau_star', Q(prog))), 'expected': render(('panic', str(e)))})
        return [r]
    program, theory, globals_, per_rule, out_text = resp
    # the tree anthem's parser built must be the tree the language definition prescribes (independent reader)
    from . import miniparse
    try:
        mine = miniparse.parse_program(prog)
    except miniparse.Unsupported:
        mine = None
    except Exception:
        mine = None
    if mine is not None and render(mine) != render(program):
        r = dict(base)
        r.update(verdict='violation-concrete', signature='program-parse-tree',
                 detail='anthem parses the program as %s but the language definition prescribes %s' % (render(program)[:500], render(mine)[:500]),
                 replay={'request': render(('parse_program', Q(prog))), 'expected': render((program,))})
        return [r]
    base['parse_cross_checked'] = mine is not None
    if 'expected_term' in item and render(item['expected_term']) not in render(program):
        r = dict(base)
        r.update(verdict='violation-concrete', signature='program-parse-tree',
                 detail='the parsed program %s does not contain the term the precedence rules prescribe: %s' % (
                     render(program)[:400], render(item['expected_term'])),
                 replay={'request': render(('parse_program', Q(prog))), 'expected': render((program,))})
        return [r]
    rules = program[1:]
    formulas = theory[1:]
    base['output'] = str(out_text).strip()
    base['obligation'] = 'forall H<=T (all integers, symbolic numerals): <H,T> |= tau*(P) <-> <H,T> |= every rule of P ' \
                         '(reference mini-gringo semantics), at both worlds'
    r = dict(base)
    if len(rules) != len(formulas):
        r.update(verdict='violation-concrete', signature='tau-star-formula-count',
                 detail='%d rules but %d formulas' % (len(rules), len(formulas)),
                 replay={'request': render(req), 'expected': render(resp)})
        return [r]
    preds = asp_preds(program) | set().union(*[fol_preds(f) for f in formulas]) if formulas else asp_preds(program)
    wrong = WRONG.get(item.get('wrong'))
    timeout = item.get('timeout_ms', 4000)
    total_ms = 0
    worst = 'unsat'
    ladder = set()

    def ladder_for(sentinels):
        lad = [{}, {'relativize_int': True}]
        if sentinels:
            lad.append({'concrete_numerals': True})
        lad.append({'abstract_order': True})
        return tuple(lad)

    def mk_ctx(kw):
        kw = dict(kw)
        concrete = kw.pop('concrete_numerals', False)
        ctx = Ctx(**kw)
        ctx.sentinels = set() if concrete else set(sent)
        return ctx

    def per_rule_build(k):
        def build(kw):
            ctx = mk_ctx(kw)
            pairs = []
            for w in ('h', 't'):
                lhs = ctx.ht(formulas[k], w)
                rhs = ctx.rule_ref(rules[k], w) if wrong is None else wrong(ctx, rules[k], w)
                pairs.append((lhs, rhs))
            return side_conditions(ctx, preds), pairs
        return build

    failing = None
    queries = 0
    for k in range(len(rules)):
        res = driver.solve_equiv(per_rule_build(k), timeout, ladder_for(sent))
        total_ms += res['ms']
        queries += res.get('queries', 0)
        ladder.update((res.get('ladder') or '').split('|'))
        if res['verdict'] != 'unsat':
            worst = res['verdict']
            failing = (k, res)
            break
    if failing is not None and len(rules) > 1:
        # decide the property as stated: the theory as a whole against the program as a whole
        def build(kw):
            ctx = mk_ctx(kw)
            pairs = []
            for w in ('h', 't'):
                lhs = z3.And(*[ctx.ht(f, w) for f in formulas])
                rhs = z3.And(*[(ctx.rule_ref(ru, w) if wrong is None else wrong(ctx, ru, w)) for ru in rules])
                pairs.append((lhs, rhs))
            return side_conditions(ctx, preds), pairs
        res = driver.solve_equiv(build, timeout * 2, ladder_for(sent))
        total_ms += res['ms']
        queries += res.get('queries', 0)
        worst = res['verdict']
        failing = (None, res)
    r['queries'] = queries
    r.update(verdict=worst, ms=total_ms, vc_size=sum(fol_size(f) for f in formulas), nontrivial=True,
             symbolic_numerals=len(sent), events=events, ladder=sorted(x for x in ladder if x))
    if worst == 'sat':
        k, res = failing
        r['signature'] = 'tau-star-meaning'
        r['detail'] = 'rule %s ; theory: %s ; countermodel: %s' % (
            k, str(out_text).strip()[:600], driver.model_text(res['model'], 1200))
        r['replay'] = {'request': render(req), 'expected': render(resp), 'smt2': res['smt2'],
                       'cli': {'args': ['translate', '--with', 'tau-star', 'in.lp'], 'files': {'in.lp': prog},
                               'expect_stdout': str(out_text)}}
    elif worst == 'unknown':
        r['detail'] = failing[1].get('reason')
    return [r]


# ---------------------------------------------------------------- vacuity twins: wrong references must be refuted

def _twin(kind):
    def wrong(ctx, rule, w):
        ctx.twin = kind
        try:
            return ctx.rule_ref(rule, w)
        finally:
            ctx.twin = None
    return wrong


WRONG = {'truncating': _twin('truncating'), 'not-here': _twin('not-here'), 'interval-strict': _twin('interval-strict')}
TWINS_EXPECTED = 3


def twins(tier, seed):
    return [
        {'family': 'twin', 'program': 'p(X / Y) :- q(X, Y).', 'sentinels': [], 'wrong': 'truncating'},
        {'family': 'twin', 'program': 'p(X) :- q(X), not r(X).', 'sentinels': [], 'wrong': 'not-here'},
        {'family': 'twin', 'program': 'p(X..Y) :- q(X, Y).', 'sentinels': [], 'wrong': 'interval-strict'},
    ]


def replay(r):
    return generic_replay(r)


def describe(tier):
    return {
        'rule': 'CLI agreement: 12 programs through `anthem translate --with tau-star` must print/save byte for byte what the library call returns; programs built from 15 rule skeletons (every head kind, arity 0-2, positive/negated/doubly negated body '
                'literals, comparisons) with a term of operator depth <=1 (exhaustive over 6 leaves / 7 operators) or depth 2 '
                '(seeded in quick, exhaustive in thorough) at the marked position; the same with variables renamed to '
                'names that collide with the translator\'s fresh names plus a second rule feeding V1/V2/V3/Z1/I into the '
                'global-variable choice; hand-written adversarial programs; two-rule programs. Numerals are sentinels '
                'turned into free integer variables (parametricity re-checked by a second run with shifted sentinels) or '
                'concrete boundary values. One obligation per program; distinct by program text; all are non-trivial',
        'functions': ['translating::formula_representation::tau_star::{tau_star, tau_star_rule, tau_star_fo_head_rule, '
                      'tau_star_prop_head_rule, tau_star_constraint_rule, tau_body, tau_b, tau_b_first_order_literal, '
                      'tau_b_propositional_literal, tau_b_comparison, val, valtz, construct_equality_formula, '
                      'construct_total_function_formula, construct_partial_function_formula, construct_interval_formula, '
                      'choose_fresh_variable_names, choose_fresh_global_variables}',
                      'parsing::asp::mini_gringo (program text -> tree)'],
        'bounds': 'term operator depth <=2 (3 seeded in thorough), <=2 rules (+1 injected), predicate arity <=3, <=3 body '
                  'literals; integers unbounded; numerals symbolic where the translation is parametric in them',
        'outside': 'programs beyond the bounds; obligations z3 leaves unknown (non-linear arithmetic); the consequence '
                   'clause about stable/equilibrium models follows from equal HT models and is not separately solved; '
                   'division by a negative divisor is undefined in the reference (as in the paper the source cites), so '
                   'clingo\'s truncating division is deliberately not the oracle',
        'assumptions': ['reference mini-gringo semantics of av/sem.py (DESIGN 4.3): val() with floor division for positive '
                        'divisors, multi-valued intervals, arithmetic undefined on non-integers',
                        'reference HT semantics of av/sem.py (4.2)', 'z3 verdicts; counterexamples re-decided by z3 4.8.12 '
                        'and cvc5 and replayed through `anthem translate --with tau-star`'],
        'trusted_base': ['av/sem.py', 'z3'],
    }
