"""C07 - simplification portfolios preserve the meaning of every formula."""
import itertools
import os
import random
import re

import z3

from . import bridge as bridge_mod
from . import driver
from . import cliagree
from .checks_common import generic_replay
from .fol import *
from .sem import Ctx, fol_preds, fol_size, free_vars
from .sexp import Q, render

PROPERTY = 'C07'
LEVEL = 'translation_validation'

PORTFOLIOS = ('intuitionistic', 'ht', 'classic')
STRATEGIES = ('shallow', 'recursive', 'fixpoint')
INT_REWRITES = ['evaluate_comparisons', 'apply_negation_definition_inverse', 'apply_reverse_implication_definition',
                'apply_equivalence_definition_inverse', 'remove_identities', 'remove_annihilations',
                'remove_idempotences', 'remove_orphaned_variables', 'remove_empty_quantifications',
                'join_nested_quantifiers']
CLASSIC_REWRITES = ['remove_double_negation', 'substitute_defined_variables', 'restrict_quantifier_domain',
                    'extend_quantifier_scope', 'simplify_transitive_equality']

X, Y, Z = gvar('X'), gvar('Y'), gvar('Z')
XI, YI, II, JI = ivar('X'), ivar('Y'), ivar('I'), ivar('J')


def holes(v='X'):
    """Subformulas with the variable v (general) free, standing for arbitrary F(v)."""
    t = gvar(v)
    return [atom('q', t), atom('r', t, Y), cmp(t, '<', num(3)), neg(atom('q', t)), imp(atom('q', t), atom('p'))]


ATOMS = [atom('p'), atom('q', X), atom('r', X, Y), cmp(X, '=', Y), cmp(XI, '<', num(3)), TRUE, FALSE,
         neg(atom('q', X))]
TERMS = [X, XI, add(XI, num(1)), num(5), num(-2), sym('a'), INF, SUP, Y, mul(YI, XI)]


def templates():
    out = []

    def T(fam, f):
        out.append((fam, f))
    # 1 evaluate_comparisons
    for t in TERMS:
        for r in ('=', '!=', '<', '<=', '>', '>='):
            T('evaluate_comparisons', cmp(t, r, t))
        T('evaluate_comparisons', cmp(t, '<=', t, '<', Y))
        T('evaluate_comparisons', cmp(Y, '<', t, '=', t, '!=', t))
        T('evaluate_comparisons', cmp(num(1), '<=', t, '<=', num(1)))
    T('evaluate_comparisons', cmp(add(XI, num(1)), '=', add(num(1), XI)))
    T('evaluate_comparisons', cmp(X, '=', XI))
    T('evaluate_comparisons', cmp(num(1), '<', num(2), '<', num(1)))
    # ground arithmetic at the limits of the machine integer type (TPTP $int and the standard interpretation are unbounded)
    IMAX, IMIN = 9223372036854775807, -9223372036854775808
    for t in (add(num(IMAX), num(1)), sub(num(IMIN), num(1)), mul(num(IMAX), num(2)), mul(num(IMIN), num(-1)), ineg(num(IMIN)),
              sub(num(0), num(IMIN)), add(add(num(IMAX), num(1)), num(-1)), mul(num(4611686018427387904), num(2)), add(num(1), num(2))):
        T('ground_arithmetic', atom('q', t))
        T('ground_arithmetic', cmp(XI, '=', t))
        T('ground_arithmetic', cmp(t, '>', num(IMAX)))
        T('ground_arithmetic', exists([var('X', 'i')], conj(cmp(XI, '=', t), atom('q', XI))))
    # 2-4 definitions
    for a in ATOMS:
        T('negation_definition', imp(a, FALSE))
        T('negation_definition', imp(FALSE, a))
        for b in ATOMS[:4]:
            T('reverse_implication', rimp(a, b))
            T('equivalence_definition', conj(imp(a, b), imp(b, a)))
            T('equivalence_definition', conj(imp(a, b), imp(a, b)))
            T('equivalence_definition', conj(imp(a, b), rimp(a, b)))
    # 5-7 identities / annihilations / idempotences
    for a in ATOMS:
        for e in (TRUE, FALSE):
            for op in BIN:
                T('identities_annihilations', (op, a, e))
                T('identities_annihilations', (op, e, a))
        for op in BIN:
            T('idempotences', (op, a, a))
        T('idempotences', conj(conj(a, atom('p')), a))
    # 8-10 quantifier housekeeping
    for h in holes('X'):
        for q in ('forall', 'exists'):
            T('orphaned_variables', (q, (var('X'), var('Y')), h))
            T('orphaned_variables', (q, (var('Z'), var('X', 'i')), h))
            T('orphaned_variables', (q, (var('Z'),), h))
            T('empty_quantification', (q, (), h))
            for q2 in ('forall', 'exists'):
                T('join_nested', (q, (var('X'),), (q2, (var('Y'),), h)))
                T('join_nested', (q, (var('X'),), (q2, (var('X'),), h)))
                T('join_nested', (q, (var('Y'), var('X')), (q2, (var('X', 'i'), var('X')), h)))
                T('join_nested', (q, (var('X'),), (q2, (var('Z'),), (q, (var('X'),), h))))
    # 11 double negation
    for a in ATOMS:
        T('double_negation', neg(neg(a)))
        T('double_negation', neg(neg(neg(a))))
        T('double_negation', imp(neg(neg(a)), atom('p')))
    # 12 substitute_defined_variables
    defs_g = [Y, num(5), sym('a'), add(YI, num(1)), XI, INF, add(XI, num(1)), Z]
    for t in defs_g:
        for h in holes('X'):
            T('defined_variables', exists([var('X')], conj(cmp(X, '=', t), h)))
            T('defined_variables', exists([var('X')], conj(h, cmp(t, '=', X))))
        T('defined_variables', exists([var('X')], conj(cmp(X, '=', t), exists([var('Y')], atom('r', X, Y)))))
        T('defined_variables', exists([var('X')], conj(cmp(num(1), '<=', X, '=', t), atom('q', X))))
        T('defined_variables', exists([var('X')], disj(cmp(X, '=', t), atom('q', X))))
        T('defined_variables', forall([var('X')], conj(cmp(X, '=', t), atom('q', X))))
        T('defined_variables', exists([var('X'), var('Y')], conj(cmp(X, '=', t), conj(cmp(Y, '=', X), atom('r', X, Y)))))
    # chained comparisons inside the existential body: `=` links before/after other links, bound variable at every position
    MI, NI = ivar('M'), ivar('N')
    for chain in (cmp(X, '<', Y, '=', num(3)), cmp(X, '=', Y, '<', num(3)), cmp(num(0), '<=', NI, '=', MI), cmp(num(3), '<', num(5), '=', X),
                  cmp(MI, '<', NI, '=', add(MI, num(1))), cmp(X, '!=', Y, '=', Z), cmp(Y, '=', Z, '!=', X), cmp(num(1), '<', X, '<', Y, '=', Z),
                  cmp(X, '=', num(1), '<', Y, '=', num(2)), cmp(Y, '>=', X, '=', X)):
        for blk in ([var('X')], [var('M', 'i')], [var('Y')], [var('X'), var('Y')], [var('N', 'i'), var('M', 'i')], [var('Z')]):
            for h in (atom('q', X), atom('r', X, Y), atom('q', MI), atom('p')):
                T('defined_variables_chain', exists(blk, conj(chain, h)))
    for t in [YI, num(5), add(XI, num(1)), add(YI, num(1)), Y, sym('a'), mul(YI, YI)]:
        T('defined_variables', exists([var('X', 'i')], conj(cmp(XI, '=', t), atom('q', XI))))
        T('defined_variables', exists([var('X', 'i')], conj(cmp(t, '=', XI), atom('r', XI, X))))
        T('defined_variables', exists([var('X', 'i'), var('X')], conj(cmp(XI, '=', t), conj(cmp(X, '=', XI), atom('r', XI, X)))))
    for t in [svar('Y'), sym('a'), Y, num(1)]:
        T('defined_variables', exists([var('X', 's')], conj(cmp(svar('X'), '=', t), atom('q', svar('X')))))
    # 13 restrict_quantifier_domain
    for g in (atom('q', II), atom('r', II, Z), TRUE, cmp(II, '<', num(3))):
        for hh in (atom('p'), atom('q', Z), cmp(Z, '=', gvar('Z1')), neg(atom('q', Z))):
            for eq in (cmp(II, '=', Z), cmp(Z, '=', II)):
                inner = exists([var('I', 'i'), var('J', 'i')], conj(eq, g))
                T('restrict_domain', exists([var('Z'), var('Z1')], conj(inner, hh)))
                T('restrict_domain', exists([var('Z')], conj(hh, inner)))
                T('restrict_domain', forall([var('Z'), var('Z1')], imp(inner, hh)))
                T('restrict_domain', forall([var('Z')], imp(exists([var('I', 'i')], conj(g, eq)), atom('p'))))
                # shadowing inner binders
                inner_sh = exists([var('I', 'i'), var('Z')], conj(eq, g))
                T('restrict_domain_shadow', exists([var('Z')], conj(inner_sh, hh)))
                T('restrict_domain_shadow', forall([var('Z')], imp(inner_sh, atom('p'))))
                T('restrict_domain_shadow', exists([var('Z'), var('I', 'i')], conj(inner, conj(hh, atom('q', II)))))
                T('restrict_domain_shadow', exists([var('Z'), var('I1', 'i')], conj(inner, conj(hh, atom('q', ivar('I1'))))))
                T('restrict_domain_shadow', exists([var('Z')], conj(inner, conj(hh, atom('q', ivar('I1'))))))
    # 14 extend_quantifier_scope
    for h in holes('X'):
        for other in (atom('p'), atom('q', X), atom('q', Z), exists([var('X')], atom('q', X)), cmp(XI, '<', num(1))):
            for q in ('forall', 'exists'):
                for op in BIN:
                    T('extend_scope', (op, (q, (var('X'),), h), other))
                    T('extend_scope', (op, other, (q, (var('X'),), h)))
                T('extend_scope', conj((q, (var('X'), var('X', 'i')), h), other))
    # 15 simplify_transitive_equality
    for t in [num(5), Z, sym('a'), add(YI, num(1)), Y, X]:
        for f in (neg(atom('r', X, Y)), atom('r', X, Y), atom('q', Y), atom('p')):
            T('transitive_equality', exists([var('X'), var('Y'), var('Z')], conj(conj(cmp(X, '=', t), cmp(Y, '=', t)), f)))
            T('transitive_equality', exists([var('X'), var('Y')], conj(conj(cmp(t, '=', X), f), cmp(Y, '=', t))))
            T('transitive_equality', exists([var('X', 'i'), var('Y')], conj(conj(cmp(XI, '=', t), cmp(Y, '=', t)), f)))
            T('transitive_equality', exists([var('Y')], conj(conj(cmp(X, '=', t), cmp(Y, '=', t)), f)))
        # every pair of sorts for the two equated variables (disjoint sorts make the conjunction unsatisfiable)
        for s1 in ('g', 'i', 's'):
            for s2 in ('g', 'i', 's'):
                v1, v2 = ({'g': gvar, 'i': ivar, 's': svar}[s1])('X'), ({'g': gvar, 'i': ivar, 's': svar}[s2])('Y')
                T('transitive_equality_sorts', exists([var('X', s1), var('Y', s2)], conj(conj(cmp(v1, '=', t), cmp(v2, '=', t)), atom('q', v1))))
                T('transitive_equality_sorts', exists([var('Z'), var('X', s1), var('Y', s2)], conj(conj(cmp(v1, '=', Z), cmp(v2, '=', Z)), atom('q', v1))))
                T('transitive_equality_sorts', exists([var('X', s1), var('Y', s2)], conj(conj(cmp(t, '=', v2), atom('r', v1, v1)), cmp(v1, '=', t))))
        # one of the two "equalities" is a chained comparison that only starts (or ends) with an `=` link
        for rel, u in (('>', num(7)), ('!=', sym('a')), ('<=', gvar('W'))):
            T('transitive_equality_chain', exists([var('X', 'i'), var('Y', 'i')], conj(conj(cmp(YI, '=', t), cmp(XI, '=', t, rel, u)), atom('r', XI, YI))))
            T('transitive_equality_chain', exists([var('X'), var('Y')], conj(conj(cmp(X, '=', t, rel, u), cmp(Y, '=', t)), atom('r', X, Y))))
            T('transitive_equality_chain', exists([var('X'), var('Y')], conj(conj(cmp(X, '=', t), atom('r', X, Y)), cmp(u, rel, Y, '=', t))))
        # duplicated conjuncts at non-adjacent positions
        T('transitive_equality_dup', exists([var('Y', 'i')], conj(conj(cmp(YI, '=', t), atom('q', YI)), cmp(YI, '=', t))))
        T('transitive_equality_dup', exists([var('X'), var('Y')], conj(conj(cmp(X, '=', t), atom('r', X, Y)), cmp(X, '=', t))))
        T('transitive_equality_dup', exists([var('X')], conj(cmp(X, '=', t), cmp(X, '=', t))))
    return out


def harvest_repo_tests():
    """String literals of the simplifier unit tests that the real parser accepts as formulas."""
    out = []
    base = os.path.join(bridge_mod.REPO, 'src', 'simplifying', 'fol', 'sigma_0')
    for fn in ('intuitionistic.rs', 'classic.rs'):
        try:
            src = open(os.path.join(base, fn)).read()
        except OSError:
            continue
        i = src.find('mod tests')
        for m in re.finditer(r'"((?:[^"\\]|\\.)*)"', src[i:]):
            lit = m.group(1)
            if '{' in lit or len(lit) < 3:
                continue
            out.append(lit)
    return sorted(set(out))


def rand_compose(rnd, pool, d):
    if d == 0:
        return rnd.choice(pool)
    k = rnd.randrange(5)
    if k == 0:
        return neg(rand_compose(rnd, pool, d - 1))
    if k == 1:
        vs = rnd.choice([[var('X')], [var('Y')], [var('X', 'i')], [var('Z'), var('X')], [var('I', 'i')]])
        return (rnd.choice(['forall', 'exists']), tuple(vs), rand_compose(rnd, pool, d - 1))
    return (rnd.choice(BIN), rand_compose(rnd, pool, d - 1), rand_compose(rnd, pool, rnd.randrange(d)))


def resort(f, name, sort, bound=False):
    """the same formula with the general bound variable `name` (binder and the occurrences in its scope) given another sort"""
    tag = f[0] if isinstance(f, tuple) and f else None
    if tag in ('forall', 'exists'):
        vs = f[1]
        if any(str(n) == name and s == 'g' for (n, s) in vs):
            return (tag, tuple((n, sort if str(n) == name and s == 'g' else s) for (n, s) in vs), resort(f[2], name, sort, True))
        if any(str(n) == name for (n, s) in vs):
            return f if not bound else (tag, vs, resort(f[2], name, sort, bound))
        return (tag, vs, resort(f[2], name, sort, bound))
    if tag == 'gvar' and bound and str(f[1]) == name:
        return ({'i': 'ivar', 's': 'svar'}[sort], f[1])
    if isinstance(f, tuple):
        return tuple(resort(x, name, sort, bound) if isinstance(x, tuple) else x for x in f)
    return f


def generate(tier, seed):
    rnd = random.Random(seed)
    items = []
    tpl = templates()
    for fam, f in tpl:
        items.append({'family': fam, 'formula': f})
    # the same templates with a bound general variable re-sorted (symbol / integer): rewrites that compare or merge
    # variables must respect the sorts
    for fam, f in tpl:
        for name in ('X', 'Y'):
            for sort in ('s', 'i'):
                if tier == 'quick' and rnd.random() > 0.3:
                    continue
                g = resort(f, name, sort)
                if g != f:
                    items.append({'family': fam + '/resorted', 'formula': g})
    # the same templates with both operands of the top-level connective put under the same quantifier block (or under a
    # negation): a rewrite that matches a pair of formulas must not look through a prefix it cannot distribute over
    for fam, f in tpl:
        if f[0] in BIN:
            for wrap in (lambda x: forall([var('X')], x), lambda x: exists([var('X')], x), lambda x: exists([var('X'), var('Y', 'i')], x),
                         lambda x: forall([var('Z')], exists([var('X')], x)), neg):
                if tier == 'quick' and rnd.random() > 0.25:
                    continue
                items.append({'family': fam + '/wrapped-operands', 'formula': (f[0], wrap(f[1]), wrap(f[2]))})
    for lit in harvest_repo_tests():
        items.append({'family': 'repo-unit-tests', 'text': lit})
    pool = [f for _, f in tpl]
    n = 1200 if tier == 'quick' else 60000
    for _ in range(n):
        items.append({'family': 'seeded-compositions', 'formula': rand_compose(rnd, pool, rnd.choice([1, 1, 2]))})
    cli_formulas = [imp(neg(neg(atom('p'))), atom('p')), neg(neg(atom('p'))), conj(atom('p'), neg(neg(atom('p')))),
                    forall([var('X')], imp(neg(neg(atom('q', X))), atom('q', X))), exists([var('X')], conj(cmp(X, '=', num(5)), atom('q', X))),
                    exists([var('X', 'i'), var('Y', 'i')], conj(conj(cmp(ivar('X'), '=', num(1)), cmp(ivar('Y'), '=', ivar('X'))), atom('r', ivar('X'), ivar('Y')))),
                    disj(atom('p'), neg(atom('p'))), imp(imp(atom('p'), FALSE), FALSE), iff(atom('p'), neg(neg(atom('p')))),
                    forall([var('X')], rimp(atom('q', X), conj(atom('q', X), TRUE))), conj(imp(atom('p'), atom('q', num(1))), imp(atom('q', num(1)), atom('p'))),
                    exists([var('X')], forall([var('Y')], disj(atom('r', X, Y), neg(neg(neg(atom('r', X, Y)))))))]
    for f in cli_formulas:
        items.append({'family': 'cli-agreement', 'formula': f, 'cli': True})
    return items


def logic_of(kind, name):
    if kind == 'portfolio':
        return 'classical' if name == 'classic' else 'ht'
    return 'classical' if name in CLASSIC_REWRITES else 'ht'


def equivalence_vc(f, g, logic, kw, wrong=None):
    ctx = Ctx(**kw)
    preds = sorted(fol_preds(f) | fol_preds(g))
    side = ctx.order_axioms()
    if logic == 'ht':
        side += ctx.subset_conditions(preds)
        goals = [ctx.ht(f, w) != ctx.ht(g, w) for w in ('h', 't')]
        if wrong == 'classical-for-ht':
            goals = [ctx.cl(f, world='h') != ctx.cl(g, world='h')]
    else:
        goals = [ctx.cl(f) != ctx.cl(g)]
    side += ctx.symbol_facts()
    return side + [z3.Or(*goals)]


FIXPOINT_TIMEOUT = 20


def _flatten_conj(f):
    if f[0] == 'and':
        return _flatten_conj(f[1]) + _flatten_conj(f[2])
    return [f]


def dedupe_equalities(f):
    """Remove later structurally identical copies of an equality conjunct inside every existential body."""
    tag = f[0]
    if tag == 'not':
        return ('not', dedupe_equalities(f[1]))
    if tag in BIN:
        return (tag, dedupe_equalities(f[1]), dedupe_equalities(f[2]))
    if tag == 'forall':
        return (tag, f[1], dedupe_equalities(f[2]))
    if tag == 'exists':
        body = f[2]
        if body[0] == 'and':
            parts, seen = [], set()
            for c in _flatten_conj(body):
                if c[0] == 'cmp' and len(c) == 4 and str(c[2]) == '=':
                    if c in seen:
                        continue
                    seen.add(c)
                parts.append(dedupe_equalities(c))
            return (tag, f[1], conjoin(parts))
        return (tag, f[1], dedupe_equalities(body))
    return f


def check_item(item):
    b = bridge_mod.get()
    if item.get('cli'):
        rs = [cliagree.simplify(b, item['family'], render(item['formula']), item['formula'], p, s) for p in PORTFOLIOS for s in STRATEGIES]
        return [r for r in rs if r]
    if 'text' in item:
        try:
            f = b.call('parse_formula', Q(item['text']))[0]
        except bridge_mod.BridgeError:
            return [{'key': 'unparsed:' + item['text'], 'family': item['family'], 'verdict': 'skipped',
                     'input': item['text']}]
    else:
        f = item['formula']
    out = []
    fkey = render(f)
    ftext = text(f)
    fv_f = free_vars(f)
    ops = [('portfolio', p, s) for p in PORTFOLIOS for s in STRATEGIES]
    ops += [('rewrite', n, None) for n in INT_REWRITES + CLASSIC_REWRITES]
    if item.get('twin'):
        ops = [item['twin_op']]
    seen_outputs = {}
    for kind, name, strat in ops:
        if kind == 'portfolio':
            req = ('simplify', Q(name), Q(strat), f)
            label = '%s/%s' % (name, strat)
        else:
            req = ('rewrite', Q(name), f)
            label = 'rewrite:' + name
        base = {'family': item['family'], 'key': fkey + '#' + label, 'input_key': fkey,
                'input': '%s  [%s]' % (ftext, label), 'twin': item.get('twin', False)}
        try:
            g = b.call(*req, timeout=FIXPOINT_TIMEOUT)[0]
        except bridge_mod.BridgeTimeout:
            r = dict(base)
            r.update(verdict='observation', detail='no result within %ds (C18 territory, not claimed)' % FIXPOINT_TIMEOUT)
            out.append(r)
            continue
        except bridge_mod.BridgePanic as e:
            r = dict(base)
            r.update(verdict='violation-concrete', signature='simplify-panic:' + label, detail='panic: %s' % e,
                     replay={'request': render(req), 'expected': render(('panic', str(e)))})
            out.append(r)
            continue
        logic = item.get('force_logic') or logic_of(kind, name)
        r = dict(base)
        r['output'] = text(g)
        r['obligation'] = ('forall H<=T, assignment, w: ht(F,w) <-> ht(F\',w)' if logic == 'ht'
                           else 'forall I, assignment: cl(F) <-> cl(F\')') + '; FV(F\') subset FV(F)'
        if g == f:
            r.update(verdict='held-concrete', nontrivial=False, detail='unchanged')
            out.append(r)
            continue
        extra = free_vars(g) - fv_f
        if extra:
            r.update(verdict='violation-concrete', signature='simplify-new-free-variable:' + (name if kind == 'rewrite' else label),
                     detail='new free variables %s in %s' % (sorted(extra), text(g)),
                     replay={'request': render(req), 'expected': render((g,))})
            out.append(r)
            continue
        ck = (render(g), logic)
        if ck in seen_outputs and not item.get('twin'):
            r.update(verdict=seen_outputs[ck], nontrivial=False, detail='same output as an earlier configuration')
            if seen_outputs[ck] in ('unsat', 'held-concrete'):
                r['verdict'] = 'held-concrete'
                out.append(r)
                continue
        wrong = item.get('wrong')
        res = driver.solve_ladder(lambda kw: equivalence_vc(f, g, logic, kw, wrong), item.get('timeout_ms', 8000))
        r.update(verdict=res['verdict'], ms=res['ms'], vc_size=fol_size(f) + fol_size(g), nontrivial=True)
        seen_outputs[ck] = res['verdict']
        if res['verdict'] == 'sat':
            r['signature'] = 'simplify-meaning:' + (name if kind == 'rewrite' else label)
            # causal attribution: does the disagreement vanish once duplicated equality conjuncts are removed
            # from the input (and is simplify_transitive_equality part of the configuration)?
            if name in ('classic', 'simplify_transitive_equality'):
                f2 = dedupe_equalities(f)
                if f2 != f:
                    try:
                        req2 = (req[0], req[1], req[2], f2) if kind == 'portfolio' else (req[0], req[1], f2)
                        g2 = b.call(*req2, timeout=FIXPOINT_TIMEOUT)[0]
                        res2 = {'verdict': 'unsat'} if g2 == f2 else driver.solve_ladder(
                            lambda kw: equivalence_vc(f2, g2, logic, kw), 8000)
                        if res2['verdict'] == 'unsat':
                            r['signature'] = 'transitive-equality-duplicate-conjunct'
                    except (bridge_mod.BridgeError, bridge_mod.BridgeTimeout, bridge_mod.BridgePanic):
                        pass
            r['detail'] = '%s => %s ; countermodel: %s' % (ftext, text(g), driver.model_text(res['model'], 1000))
            r['replay'] = {'request': render(req), 'expected': render((g,)), 'smt2': res['smt2']}
            if kind == 'portfolio':
                try:
                    src = b.call('fmt_formula', f)[0]
                    dst = b.call('fmt_formula', g)[0]
                    r['replay']['cli'] = {'args': ['simplify', '--portfolio', name, '--strategy', strat, 'in.spec'],
                                          'files': {'in.spec': str(src) + '.\n'}, 'expect_stdout': str(dst) + '.\n'}
                except bridge_mod.BridgeError:
                    pass
        elif res['verdict'] == 'unknown':
            r['detail'] = res.get('reason')
        out.append(r)
    return out


TWINS_EXPECTED = 2


def twins(tier, seed):
    # double negation elimination is classically valid but not HT-valid: checking the classic rewrite against the
    # HT reference must be refuted; so must excluded-middle style annihilation.
    return [
        {'family': 'twin', 'formula': neg(neg(atom('p'))), 'twin_op': ('rewrite', 'remove_double_negation', None),
         'force_logic': 'ht'},
        {'family': 'twin', 'formula': imp(neg(neg(atom('q', X))), atom('q', X)),
         'twin_op': ('portfolio', 'classic', 'recursive'), 'force_logic': 'ht'},
    ]


_orig_logic_of = logic_of


def replay(r):
    return generic_replay(r)


def describe(tier):
    return {
        'rule': 'CLI agreement: 12 formulas x 9 portfolio/strategy pairs through `anthem simplify` must print/save byte for byte what the library call returns; pattern-directed templates (incl. chained comparisons wherever a rewrite expects an equality) for each of the 15 rewrites (holes filled from pools that include shadowed '
                'and repeated binders, self-referential and mixed-sort equalities, duplicated conjuncts), the string '
                'literals of the repo\'s simplifier unit tests that parse as formulas, and seeded compositions of the '
                'templates; each formula is pushed through 3 portfolios x 3 strategies and each of the 15 single rewrites; '
                'one obligation per (formula, configuration); distinct by (formula, configuration); non-trivial = the '
                'output differs from the input and from every earlier output for the same formula',
        'functions': ['simplifying::fol::sigma_0::intuitionistic::* (INTUITIONISTIC)', 'simplifying::fol::sigma_0::classic::* '
                      '(CLASSIC incl. unstable::{restrict_quantifier_domain, extend_quantifier_scope, '
                      'simplify_transitive_equality})', 'simplifying::fol::sigma_0::ht::HT',
                      'convenience::apply::{apply, apply_fixpoint}', 'convenience::compose::compose',
                      'portfolio composition as in command_line::procedures (Simplify)'],
        'bounds': 'template formulas of depth <=4, seeded compositions of up to 2 further connectives; numerals concrete; '
                  'integers unbounded, interpretations/assignments solver-quantified; fixpoint runs capped at %ds' % FIXPOINT_TIMEOUT,
        'outside': 'formulas outside the templates/compositions; intuitionistic validity beyond here-and-there (the '
                   'property asks for HT); non-terminating fixpoint runs (recorded as observations)',
        'assumptions': ['reference HT/classical semantics of av/sem.py', 'z3 verdicts; counterexamples re-decided by '
                        'z3 4.8.12 and cvc5 and replayed through the anthem CLI'],
        'trusted_base': ['av/sem.py', 'z3'],
    }
