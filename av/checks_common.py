"""Helpers shared by the per-property check modules."""
import os
import subprocess
import tempfile

from . import bridge as bridge_mod
from . import driver
from .sexp import Q, parse, render


def fresh_bridge_call(req):
    """Re-run one bridge request in a brand-new bridge process (replay step 1)."""
    b = bridge_mod.Bridge()
    try:
        return b.call(*req)
    finally:
        b.close()


_CLI = None


def cli_binary():
    global _CLI
    if _CLI is None:
        _CLI = bridge_mod.build_cli(verbose=False)
    return _CLI


def run_cli(args, stdin_text=None, files=None, timeout=60):
    """Run the real anthem CLI; files: {name: content} written to a scratch dir under /verif/out."""
    binary = cli_binary()
    os.makedirs(driver.OUT, exist_ok=True)
    with tempfile.TemporaryDirectory(dir=driver.OUT) as d:
        argv = [binary]
        for a in args:
            if files and a in files:
                p = os.path.join(d, a)
                with open(p, 'w') as f:
                    f.write(files[a])
                argv.append(p)
            elif a == '@DIR':
                argv.append(d)
            else:
                argv.append(a)
        env = dict(os.environ)
        env['RUST_BACKTRACE'] = '0'
        r = subprocess.run(argv, input=stdin_text, stdout=subprocess.PIPE, stderr=subprocess.PIPE, text=True,
                           timeout=timeout, env=env)
        produced = {}
        for fn in os.listdir(d):
            if files and fn in files:
                continue
            try:
                produced[fn] = open(os.path.join(d, fn)).read()
            except OSError:
                pass
        return r.returncode, r.stdout, r.stderr, produced


def generic_replay(r):
    """Replay a solver counterexample before it is reported:
    1. the real operation is re-run in a fresh bridge process and must return the same output;
    2. where given, the real CLI is run and its output must equal the text the bridge produced;
    3. the exported VC is re-decided by z3 4.8.12 and cvc5: none may answer `unsat`."""
    rp = r.get('replay') or {}
    why = []
    if 'cli_mismatch' in rp:
        from .cliagree import replay_mismatch
        try:
            still = replay_mismatch(rp['cli_mismatch'])
        except Exception as e:
            return False, 'CLI replay failed to run: %s' % e
        return (True, 'the CLI differs from the library output again') if still else (False, 'CLI and library agree on replay')
    if 'request' in rp:
        try:
            got = fresh_bridge_call(parse(rp['request']))
        except bridge_mod.BridgePanic as e:
            got = ('panic', str(e))
        except bridge_mod.BridgeError as e:
            return False, 'bridge error on replay: %s' % e
        if 'expected' in rp and render(got) != rp['expected']:
            return False, 'fresh bridge run returned a different output'
        why.append('fresh-process re-run identical')
    if 'cli' in rp:
        c = rp['cli']
        try:
            code, out, err, _ = run_cli(c['args'], stdin_text=c.get('stdin'), files=c.get('files'))
        except Exception as e:
            return False, 'CLI replay failed to run: %s' % e
        if c.get('expect_stdout') is not None and out != c['expect_stdout']:
            return False, 'CLI output differs from bridge output: %r vs %r' % (out[:300], c['expect_stdout'][:300])
        why.append('CLI output identical')
    if rp.get('smt2'):
        ops = driver.second_opinions(rp['smt2'])
        rp['second_opinions'] = ops
        if any(v == 'unsat' for v in ops.values()):
            return False, 'solver disagreement: %s' % ops
        why.append('second opinions %s' % ops)
    return True, '; '.join(why) or 'concrete'
