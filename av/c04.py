"""C04 - completion of a tight program's theory has exactly its stable models."""
import itertools
import random

import z3

from . import bridge as bridge_mod
from . import driver
from .c01 import side_conditions
from .checks_common import generic_replay
from .fol import *
from .fol import text as ftext
from .sem import Ctx, asp_preds, fol_preds, fol_size, free_vars
from .sexp import Q, render

PROPERTY = 'C04'
LEVEL = 'translation_validation'

S1 = 7000001
RULES = [
    'p(X) :- q(X).', 'p(X) :- r(X, Y), not q(Y).', 'p(a).', 'p(1..3).', '{p(X)} :- q(X).', ':- p(X), q(X).',
    'q(X) :- r(X, X).', 's :- p(X).', 's :- not t.', 'p(X + 1) :- q(X).', 't :- s.', 'p(X) :- p(X).',
    'p(X, Y) :- r(X, Y), not r(Y, X).', 'r(X, Y) :- p(X), q(Y), X < Y.', '{s}.', ':- not s.', 'q(%d).' % S1,
    'p(X) :- q(X), not not p(X).', 'q(X) :- p(X), X != a.', 't :- not not t.', 'p(X / 2) :- q(X).',
    'u(V1, V) :- r(V, V1).', 'p(X) :- u(X, X), s.', ':- r(X, Y), X = Y + 1.',
    # variables named like tau*'s fresh ones, below a unary minus only / also elsewhere
    'p(X) :- q(X), r(-Z, X), q(Z).', 's :- q(-X).', 'p(Z) :- q(-Z).', 'p(-X) :- q(X), r(Z1, -Z1).',
]


def head_preds(program):
    out = set()
    for rule in program[1:]:
        h = rule[1]
        if h[0] != 'falsity':
            out.add((str(h[1][1]), len(h[1]) - 2))
    return out


def generate(tier, seed):
    rnd = random.Random(seed)
    items = []
    progs = [[r] for r in RULES]
    pairs = list(itertools.combinations(RULES, 2))
    triples = list(itertools.combinations(RULES, 3))
    rnd.shuffle(pairs)
    rnd.shuffle(triples)
    progs += [list(p) for p in pairs[:120 if tier == 'quick' else len(pairs)]]
    progs += [list(p) for p in triples[:150 if tier == 'quick' else 6000]]
    # rule order must not matter: a third of the multi-rule programs also in a shuffled order, and constraints / choice
    # rules placed before the rules that close a positive cycle
    for p in [p for p in progs if len(p) > 1][::3]:
        q = list(p)
        rnd.shuffle(q)
        if q != p:
            progs.append(q)
    progs += [[':- not s.', 'p(X) :- p(X).'], ['{s}.', ':- not s.', 't :- s.', 's :- t.'], [':- p(X), q(X).', 'q(X) :- r(X, X).', 'r(X, Y) :- p(X), q(Y), X < Y.', 'p(X) :- q(X).'],
              ['s :- not t.', ':- not s.', 'p(X) :- u(X, X), s.', 'u(V1, V) :- r(V, V1).', 'r(X, Y) :- p(X), q(Y), X < Y.']]
    nlink = 0
    for rules in progs:
        it = {'family': 'programs-%d-rules' % len(rules), 'program': '\n'.join(rules), 'sentinels': [S1]}
        if True:
            it['stable_link'] = True
            nlink += 1
        items.append(it)
    # hand-shaped theories for the refusal clause
    for name, th, expect in REFUSAL:
        items.append({'family': 'refusal', 'theory_text': th, 'expect_none': expect, 'name': name})
    return items


REFUSAL = [
    ('non-variable head argument', 'forall X (q(X) -> p(1)).', True),
    ('repeated head argument', 'forall X (q(X) -> p(X, X)).', True),
    ('mismatched heads', 'forall X (q(X) -> p(X)). forall Y (r(Y) -> p(Y)).', True),
    ('free variable', 'q(X) -> p(X).', True),
    ('free variable in constraint', 'q(X) -> #false.', True),
    ('nested universal prefix', 'forall X (forall Y (q(X, Y) -> p(X))).', True),
    ('conjunction in head', 'forall X (q(X) -> p(X) and r(X)).', True),
    ('equivalence', 'forall X (q(X) <-> p(X)).', True),
    ('head is comparison', 'forall X (q(X) -> X = 1).', True),
    ('integer term in head', 'forall X$i (q(X$i) -> p(X$i + 1)).', True),
    ('existential prefix', 'exists X (q(X) -> p(X)).', True),
    ('reverse implication ok', 'forall X (p(X) <- q(X)).', False),
    ('plain ok', 'forall X (q(X) -> p(X)). forall X (r(X) -> p(X)). q(a) -> #false.', False),
    ('propositional ok', 'q -> p. not p -> #false.', False),
    ('mixed arity ok', 'forall X (q(X) -> p(X)). forall X Y (q(X) and q(Y) -> p(X, Y)).', False),
    ('permuted head variables', 'forall V1 V2 (q(V1, V2) -> p(V1, V2)). forall V1 V2 (r(V1, V2) -> p(V2, V1)).', True),
    ('permuted head variables arity 3', 'forall X Y Z (q(X, Y, Z) -> p(X, Y, Z)). forall X Y Z (r(X, Y, Z) -> p(Y, Z, X)).', True),
    ('same variables different sort', 'forall X (q(X) -> p(X)). forall X$i (r(X$i) -> p(X$i)).', True),
    # mismatching heads of one predicate that are not neighbours in the theory
    ('mismatched heads, interleaved', 'forall X (X = 1 -> q(X)). forall X (q(X) -> p(X)). forall X (X = 2 -> s(X)). forall Y (s(Y) -> p(Y)).', True),
    ('mismatched heads, constraint in between', 'forall X (q(X) -> p(X)). forall X (q(X) and X > 3 -> #false). forall Y (r(Y) -> p(Y)).', True),
    ('mismatched heads, third of three, interleaved twice', 'forall X (q(X) -> p(X)). forall Z (q(Z) -> s(Z)). forall X (r(X) -> p(X)). '
     'forall Z (r(Z) -> s(Z)). forall Y (t(Y) -> p(Y)).', True),
    ('mismatched heads, other arity in between', 'forall X (q(X) -> p(X)). forall X Y (q(X) and q(Y) -> p(X, Y)). forall Y (r(Y) -> p(Y)).', True),
    ('matching heads, interleaved ok', 'forall X (X = 1 -> q(X)). forall X (q(X) -> p(X)). forall X (X = 2 -> s(X)). forall X (s(X) -> p(X)).', False),
    ('identical heads three rules ok', 'forall X Y (q(X, Y) -> p(X, Y)). forall X Y (r(X, Y) -> p(X, Y)). forall X Y Z (s(X, Y, Z) -> p(X, Y)).', False),
]


def split_rule_formula(f):
    """tau*-shaped formula -> (quantified variable list, antecedent, head) or None."""
    vs = ()
    if f[0] == 'forall':
        vs = f[1]
        f = f[2]
    if f[0] == 'imp':
        return vs, f[1], f[2]
    if f[0] == 'rimp':
        return vs, f[2], f[1]
    return None


def ref_completion(ctx, formulas, inputs):
    """Clark completion, built semantically (z3) from the rule formulas: for every non-input predicate p/n of the theory,
    forall v (p(v) <-> OR_i exists X_i (V_i = v and F_i)); constraints are kept as they are."""
    parts = []
    preds = set()
    for f in formulas:
        preds |= fol_preds(f)
    defs = {p: [] for p in preds if p not in inputs}
    for f in formulas:
        sp = split_rule_formula(f)
        if sp is None:
            raise ValueError('not rule-shaped: %s' % ftext(f))
        vs, ant, head = sp
        if head[0] == 'false':
            parts.append(ctx.cl(f))
            continue
        if head[0] != 'atom':
            raise ValueError('head is not an atom: %s' % ftext(f))
        key = (str(head[1]), len(head) - 2)
        if key in inputs:
            continue
        defs[key].append((vs, ant, head))
    for (name, arity), rules in sorted(defs.items()):
        vv = [ctx.fresh_const('v', ctx.G) for _ in range(arity)]
        disj = []
        for vs, ant, head in rules:
            env = {}
            bound = []
            for (n, srt) in vs:
                c = ctx.fresh_const('%s$%s' % (n, srt), ctx.sort_of(srt))
                env[(str(n), str(srt))] = c
                bound.append(c)
            eqs = [ctx.gterm(t, env) == v for t, v in zip(head[2:], vv)]
            body = z3.And(*(eqs + [ctx.cl(ant, env)]))
            disj.append(z3.Exists(bound, body) if bound else body)
        p = ctx.pred(name, arity)
        lhs = p(*vv) if vv else p()
        rhs = z3.Or(*disj) if disj else z3.BoolVal(False)
        eq = lhs == rhs
        parts.append(z3.ForAll(vv, eq) if vv else eq)
    return z3.And(*parts) if parts else z3.BoolVal(True)


def head_predicate(f):
    while f[0] == 'forall':
        f = f[2]
    if f[0] == 'iff' and f[1][0] == 'atom':
        return (str(f[1][1]), len(f[1]) - 2)
    return None


def check_item(item):
    b = bridge_mod.get()
    if 'theory_text' in item:
        th = b.call('parse_theory', Q(item['theory_text']))[0]
        res = b.call('completion', th, ())[0]
        r = {'family': 'refusal', 'key': item['theory_text'], 'input': '%s  [%s]' % (item['theory_text'], item['name']),
             'obligation': 'completion refuses a theory that is not completable (and accepts the control cases)',
             'nontrivial': True, 'twin': item.get('twin', False)}
        got_none = res[0] == 'none'
        if got_none == item['expect_none']:
            r.update(verdict='held-concrete', output='refused' if got_none else ftext_theory(res[1]))
            if not got_none:
                # an accepted hand-shaped theory must still be completed correctly: same obligations as for tau* theories
                comp = list(res[1][1:])
                formulas = list(th[1:])

                def build(kw):
                    ctx = Ctx(**kw)
                    real = z3.And(*[ctx.cl(f) for f in comp]) if comp else z3.BoolVal(True)
                    return ctx.order_axioms() + ctx.symbol_facts(), [(real, ref_completion(ctx, formulas, set()))]
                res2 = driver.solve_equiv(build, 5000, ({}, {'relativize_int': True}, {'abstract_order': True}))
                r2 = dict(r)
                r2.update(key=r['key'] + '#sem', verdict=res2['verdict'], ms=res2['ms'],
                          obligation='forall classical I: I |= completion(theory) <-> I |= reference Clark completion of the same theory')
                if res2['verdict'] == 'sat':
                    r2.update(signature='completion-meaning', detail='completion: %s ; countermodel: %s' % (ftext_theory(res[1])[:500], driver.model_text(res2['model'], 800)),
                              replay={'request': render(('completion', th, ())), 'expected': render((res,)), 'smt2': res2['smt2']})
                return [r, r2]
        else:
            r.update(verdict='violation-concrete', signature='completion-refusal:' + item['name'],
                     detail='expected %s, got %s' % ('refusal' if item['expect_none'] else 'a completion',
                                                     'refusal' if got_none else ftext_theory(res[1])),
                     replay={'request': render(('completion', th, ())), 'expected': render((res,))})
        return [r]

    prog = item['program']
    tau = b.call('tau_star', Q(prog))
    program, theory = tau[0], tau[1]
    formulas = list(theory[1:])
    heads = head_preds(program)
    allp = sorted(asp_preds(program))
    body_only = [p for p in allp if p not in heads]
    out = []
    subsets = [()] if not body_only else []
    if body_only:
        for k in range(len(body_only) + 1):
            subsets += list(itertools.combinations(body_only, k))
    tight = str(b.call('is_tight', Q(prog))[0]) == 'true' or item.get('force_tight', False)
    for inputs in subsets:
        inp_s = tuple((Q(n), str(a)) for (n, a) in inputs)
        req = ('completion', theory, inp_s)
        res = b.call(*req)[0]
        label = '%s  [inputs: %s]%s' % (prog.replace('\n', ' '), ', '.join('%s/%d' % p for p in inputs) or '-',
                                        '' if tight else ' [not tight]')
        base = {'family': item['family'], 'key': prog + '#' + repr(inputs), 'input_key': prog, 'input': label,
                'twin': item.get('twin', False), 'nontrivial': True}
        if res[0] == 'none':
            r = dict(base)
            r.update(verdict='violation-concrete', signature='completion-refuses-tau-star-theory',
                     detail='completion returned None on a tau* theory',
                     replay={'request': render(req), 'expected': render((res,))})
            out.append(r)
            continue
        comp = list(res[1][1:])
        base['output'] = ftext_theory(res[1])
        # syntactic clause: exactly one completed definition per non-input predicate of the theory, none for inputs
        th_preds = set()
        for f in formulas:
            th_preds |= fol_preds(f)
        defined = [head_predicate(f) for f in comp]
        r = dict(base)
        r['key'] += '#defs'
        r['obligation'] = 'every non-input predicate of the theory has exactly one completed definition; inputs have none; result closed'
        problems = []
        for p in sorted(th_preds):
            n = defined.count(p)
            if p in inputs and n != 0:
                problems.append('input %s/%d has a definition' % p)
            if p not in inputs and n != 1:
                problems.append('%s/%d has %d definitions' % (p[0], p[1], n))
        for f in comp:
            if free_vars(f):
                problems.append('free variables in %s' % ftext(f))
        if problems:
            r.update(verdict='violation-concrete', signature='completion-definitions', detail='; '.join(problems),
                     replay={'request': render(req), 'expected': render((res,))})
        else:
            r.update(verdict='held-concrete')
        out.append(r)
        # semantic clause
        sent = list(item.get('sentinels') or [])
        wrong = item.get('wrong')

        def build(kw):
            ctx = Ctx(**kw)
            ctx.sentinels = set(sent)
            real = z3.And(*[ctx.cl(f) for f in comp]) if comp else z3.BoolVal(True)
            if wrong == 'no-empty-definitions':
                keep = [f for f in formulas if True]
                ref = ref_completion(ctx, keep, set(inputs) | {p for p in th_preds if p not in heads})
            else:
                ref = ref_completion(ctx, formulas, set(inputs))
            return ctx.order_axioms() + ctx.symbol_facts(), [(real, ref)]
        res2 = driver.solve_equiv(build, item.get('timeout_ms', 5000), ({}, {'relativize_int': True}, {'abstract_order': True}))
        r = dict(base)
        r['key'] += '#sem'
        r['obligation'] = 'forall classical I: I |= completion(tau*(P), inputs) <-> I |= Clark completion (reference) of the same theory'
        r.update(verdict=res2['verdict'], ms=res2['ms'], vc_size=sum(fol_size(f) for f in comp), queries=res2.get('queries'))
        if res2['verdict'] == 'sat':
            r['signature'] = 'completion-meaning'
            r['detail'] = 'completion: %s ; countermodel: %s' % (base['output'][:600], driver.model_text(res2['model'], 1000))
            r['replay'] = {'request': render(req), 'expected': render((res,)), 'smt2': res2['smt2']}
            if not inputs:
                r['replay']['cli'] = {'args': ['translate', '--with', 'completion', 'in.spec'],
                                      'files': {'in.spec': str(tau[4])}, 'expect_stdout': str(res[2])}
        elif res2['verdict'] == 'unknown':
            r['detail'] = res2.get('reason')
        out.append(r)
        # (b) the theorem itself, on a finite structure (tight, arithmetic-free programs)
        if tight and item.get('stable_link'):
            link = stable_model_link(b, item, program, formulas, comp, set(inputs), allp, item.get('link_timeout_ms', 20000))
            if link is not None:
                results, ndom, natoms = link
                for name, rr in results:
                    r = dict(base)
                    r['key'] += '#' + name
                    r['family'] = 'stable-model-link'
                    r['obligation'] = ('finite structure (|D|=%d: constants + 2 symbolic elements, %d atoms): no T with %s'
                                       % (ndom, natoms, name.replace('-', ' ')))
                    r.update(verdict=rr['verdict'], ms=rr['ms'])
                    if rr['verdict'] == 'sat':
                        r['signature'] = 'stable-link:' + name
                        r['detail'] = 'completion: %s ; witness: %s' % (base['output'][:500], driver.model_text(rr['model'], 1500))
                        r['replay'] = {'request': render(req), 'expected': render((res,)), 'smt2': rr['smt2']}
                    elif rr['verdict'] == 'unknown':
                        r['detail'] = rr.get('reason')
                    out.append(r)
    if item.get('twin') and item.get('twin_kind') == 'sem':
        return [r for r in out if r['key'].endswith('#sem')][:1]
    if item.get('twin') and item.get('twin_kind') == 'link':
        return [r for r in out if r.get('family') == 'stable-model-link' and r['verdict'] == 'sat'][:1] or \
            [r for r in out if r.get('family') == 'stable-model-link'][:1]
    return out


def asp_constants(program):
    """Precomputed terms of an arithmetic-free program; None if the program uses arithmetic or intervals."""
    consts = set()

    def term(t):
        if t[0] in ('pnum', 'psym', 'pinf', 'psup'):
            consts.add(t)
            return True
        if t[0] == 'var':
            return True
        return False
    for rule in program[1:]:
        h = rule[1]
        args = list(h[1][2:]) if h[0] != 'falsity' else []
        for bl in rule[2]:
            args += list(bl[2][2:]) if bl[0] == 'lit' else [bl[2], bl[3]]
        for a in args:
            if not term(a):
                return None
    return consts


def stable_model_link(b, item, program, formulas, comp, inputs, allp, timeout_ms):
    """Finite-structure re-check of the theorem the property rests on: over a domain D = the program's constants plus
    two symbolic elements, T |= completion  <->  T is a stable model of P + T's input facts. Two queries:
    (1) exists T: T |= Comp and T not stable (purely existential: a smaller H is a witness);
    (2) exists T: T stable (forall H < T: <H,T> does not satisfy P; H parametrised by one Boolean per atom) and
        T does not satisfy Comp."""
    consts = asp_constants(program)
    if consts is None:
        return None
    heads = head_preds(program)
    non_input = [p for p in allp if p not in inputs]
    results = []

    def mk():
        ctx = Ctx()
        dom = []
        for c in sorted(consts):
            dom.append(ctx.gval_pkg(c, {})[2])
        dom += [ctx.const('dom', 'e1', 'g'), ctx.const('dom', 'e2', 'g')]
        ctx.finite_domain = dom
        return ctx, dom

    # ---- query 1
    ctx, dom = mk()
    natoms = sum(len(dom) ** a for (_, a) in non_input)
    if natoms > 60:
        return None
    comp_t = z3.And(*[ctx.cl(f, world='t') for f in comp]) if comp else z3.BoolVal(True)
    rules = program[1:]
    p_t = z3.And(*[ctx.rule_ref(r, 't') for r in rules])
    p_ht = z3.And(*[ctx.rule_ref(r, 'h') for r in rules])
    sub, same_inputs, differ = [], [], []
    import itertools as _it
    for (n, a) in allp:
        for combo in _it.product(dom, repeat=a):
            ph = ctx.pred(n, a, 'h')(*combo) if a else ctx.pred(n, a, 'h')()
            pt = ctx.pred(n, a, 't')(*combo) if a else ctx.pred(n, a, 't')()
            if (n, a) in inputs:
                same_inputs.append(ph == pt)
            else:
                sub.append(z3.Implies(ph, pt))
                differ.append(z3.And(pt, z3.Not(ph)))
    smaller = z3.And(*(sub + same_inputs + [z3.Or(*differ) if differ else z3.BoolVal(False)]))
    side = ctx.order_axioms() + ctx.symbol_facts()
    q1 = side + [comp_t, z3.Or(z3.Not(p_t), z3.And(smaller, p_ht))]
    r1 = driver.solve(q1, timeout_ms)
    results.append(('completion-model-not-stable', r1))
    # ---- query 2
    ctx, dom = mk()
    comp_t = z3.And(*[ctx.cl(f, world='t') for f in comp]) if comp else z3.BoolVal(True)
    p_t = z3.And(*[ctx.rule_ref(r, 't') for r in rules])
    hb = {}
    for (n, a) in non_input:
        for idx in _it.product(range(len(dom)), repeat=a):
            hb[(n, a, idx)] = z3.Bool('H:%s/%d:%s' % (n, a, '-'.join(map(str, idx))))

    def extent(n, a):
        def app(*xs):
            opts = []
            for idx in _it.product(range(len(dom)), repeat=a):
                opts.append(z3.And(*([x == dom[i] for x, i in zip(xs, idx)] + [hb[(n, a, idx)]])))
            return z3.Or(*opts) if opts else z3.BoolVal(False)
        return app
    for (n, a) in non_input:
        ctx.pred_override[(n, a, 'h')] = extent(n, a)
    for (n, a) in inputs:
        ctx.pred_override[(n, a, 'h')] = ctx.pred(n, a, 't')
    p_ht = z3.And(*[ctx.rule_ref(r, 'h') for r in rules])
    sub, differ = [], []
    for (n, a) in non_input:
        for combo in _it.product(dom, repeat=a):
            ph = ctx.pred(n, a, 'h')(*combo)
            pt = ctx.pred(n, a, 't')(*combo) if a else ctx.pred(n, a, 't')()
            sub.append(z3.Implies(ph, pt))
            differ.append(z3.And(pt, z3.Not(ph)))
    smaller = z3.And(*(sub + [z3.Or(*differ) if differ else z3.BoolVal(False)]))
    hvars = list(hb.values())
    minimal = z3.ForAll(hvars, z3.Not(z3.And(smaller, p_ht))) if hvars else z3.BoolVal(True)
    side = ctx.order_axioms() + ctx.symbol_facts()
    q2 = side + [p_t, minimal, z3.Not(comp_t)]
    r2 = driver.solve(q2, timeout_ms)
    results.append(('stable-model-not-completion-model', r2))
    return results, len(dom), natoms


def ftext_theory(th):
    return ' '.join(ftext(f) + '.' for f in th[1:])


TWINS_EXPECTED = 2


def twins(tier, seed):
    # (1) a reference that forgets the empty definitions of undefined predicates must be refuted;
    # (2) the finite-structure theorem check must notice a non-tight program passed off as tight:
    #     p :- p has the completion p <-> p, whose model {p} is not stable.
    return [{'family': 'twin', 'program': 'p(X) :- q(X), not r(X).', 'sentinels': [], 'wrong': 'no-empty-definitions',
             'twin_kind': 'sem'},
            {'family': 'twin', 'program': 'p(X) :- p(X), q(X).', 'sentinels': [], 'stable_link': True, 'force_tight': True,
             'twin_kind': 'link'}]


def replay(r):
    return generic_replay(r)


def describe(tier):
    return {
        'rule': 'programs of 1-3 rules from a pool of 24 rules (tight and non-tight; basic/choice/constraint heads, '
                'intervals, arithmetic, recursion, V-named variables) x every subset of the body-only predicates as inputs; '
                'plus 15 hand-shaped theories for the refusal clause. Per (program, input set): one concrete obligation '
                '(exactly one definition per non-input predicate, closedness) and one solver obligation (meaning); '
                'distinct by (program, input set); all non-trivial',
        'functions': ['translating::classical_reduction::completion::{completion, components, split, split_implication, '
                      'has_head_mismatches, heads, atomic_formula_from}', 'tau_star (producer of the theories)',
                      'analyzing::tightness::is_tight (recorded per program)'],
        'bounds': '<=3 rules, <=5 predicates of arity <=2; integers unbounded; all classical interpretations '
                  '(solver-quantified); the stable-model link itself (completion = stable models for tight programs) is the '
                  'cited theorem and is not re-proved in the quick tier',
        'outside': 'programs beyond the pool; the stable-model link is re-checked on finite structures only and for arithmetic-free programs; unknown '
                   'solver answers',
        'assumptions': ['reference Clark completion in av/c04.py ref_completion (written from the definition, on the rule '
                        'formulas of the real tau* theory)', 'classical semantics of av/sem.py', 'z3 verdicts'],
        'trusted_base': ['av/c04.py ref_completion', 'av/sem.py', 'z3'],
    }
