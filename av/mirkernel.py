"""The one tree-free integer kernel of C06, decided for *every* machine integer: the TPTP rendering of
IntegerTerm::Numeral(n).

The function `<tptp::Format<IntegerTerm> as Display>::fmt` is compiled by the nightly toolchain to MIR
(-Zunpretty=mir) from a scratch copy of /repo's current working tree on every run; the `Numeral` arm is loop-free
integer code:   _5 = Lt(n, 0); switchInt(_5) -> [0: A, otherwise: B];
                B: m = <call on n>; write_fmt("$uminus(" {m as usize|isize} ")")      A: write_fmt({n as isize})
This module reads exactly that slice, translates it into 64-bit bit-vector SMT (wrapping semantics, as the release
profile executes it), and asks z3 whether some n exists whose rendered text does not denote n
(`$uminus(d)` denotes -d, a decimal literal denotes its value, `Display` of usize/isize prints the value - trusted).
If the MIR no longer has this shape the kernel check is reported as not applicable to the current code (an
observation, never a verdict)."""
import os
import re
import subprocess
import time

import z3

from . import bridge as bridge_mod

MIRDIR = os.path.join(bridge_mod.BUILD, 'mir')


def dump_mir():
    src = os.path.join(MIRDIR, 'src_copy')
    os.makedirs(src, exist_ok=True)
    r = subprocess.run(['rsync', '-a', '--delete', '--exclude', 'target', '--exclude', '.git', bridge_mod.REPO + '/', src + '/'],
                       stdout=subprocess.PIPE, stderr=subprocess.STDOUT, text=True)
    if r.returncode != 0:
        raise RuntimeError('rsync failed: ' + r.stdout[-300:])
    os.utime(os.path.join(src, 'src', 'lib.rs'))
    env = dict(os.environ)
    env['CARGO_NET_OFFLINE'] = 'true'
    env['CARGO_TARGET_DIR'] = os.path.join(MIRDIR, 'target')
    r = subprocess.run(['cargo', '+nightly', 'rustc', '--offline', '--lib', '--', '-Zunpretty=mir', '-C', 'debug-assertions=off',
                        '-C', 'overflow-checks=off'], cwd=src, env=env, stdout=subprocess.PIPE, stderr=subprocess.PIPE, text=True)
    if r.returncode != 0 or 'fn ' not in r.stdout:
        raise RuntimeError('MIR dump failed: ' + r.stderr[-500:])
    return r.stdout


def function_body(mir):
    m = re.search(r'^fn tptp::<impl at [^>]*>::fmt\(_1: &tptp::Format<\'_, IntegerTerm>.*?^}\n', mir, re.S | re.M)
    return m.group(0) if m else None


def blocks(body):
    out = {}
    for m in re.finditer(r'^    (bb\d+)(?: \(cleanup\))?: \{\n(.*?)^    \}', body, re.S | re.M):
        out[m.group(1)] = [l.strip() for l in m.group(2).splitlines() if l.strip()]
    return out


def decode_format(bytestr):
    """new-style fmt template: length-prefixed literals, 0xc0 = next argument, 0x00 = end"""
    raw = eval('b"%s"' % bytestr)
    pieces, i = [], 0
    while i < len(raw):
        b = raw[i]
        if b == 0:
            break
        if b == 0xc0:
            pieces.append(('arg',))
            i += 1
            if i < len(raw) and raw[i] == 0 and i == len(raw) - 1:
                break
            continue
        if b < 0x80:
            pieces.append(('lit', raw[i + 1:i + 1 + b].decode()))
            i += 1 + b
            continue
        return None
    return pieces


def follow(bbs, start, numeral_ref):
    """Symbolically walk one straight-line path from `start` until write_fmt: returns (arg expression builder, arg type, template)."""
    defs = {}
    cur = start
    arg_var, arg_ty, template = None, None, None
    for _ in range(12):
        nxt = None
        for line in bbs.get(cur, []):
            m = re.match(r'(_\d+) = core::num::<impl isize>::(\w+)\((?:move|copy) (_\d+)\) -> \[return: (bb\d+)', line)
            if m:
                defs[m.group(1)] = ('call', m.group(2), m.group(3))
                nxt = m.group(4)
                continue
            m = re.match(r'(_\d+) = (Neg|Not)\((?:move|copy) (_\d+)\);', line)
            if m:
                defs[m.group(1)] = ('unop', m.group(2), m.group(3))
                continue
            m = re.match(r'(_\d+) = (?:copy|move) \(\*(_\d+)\);', line)
            if m:
                defs[m.group(1)] = ('deref', m.group(2))
                continue
            m = re.match(r'(_\d+) = &(_\d+);', line)
            if m:
                defs[m.group(1)] = ('ref', m.group(2))
                continue
            m = re.match(r'(_\d+) = \((?:move|copy) (_\d+),\);', line)
            if m:
                defs[m.group(1)] = ('tuple', m.group(2))
                continue
            m = re.match(r'(_\d+) = no_retag copy \((_\d+)\.0: ([^)]*)\);', line)
            if m:
                defs[m.group(1)] = ('field0', m.group(2))
                continue
            m = re.match(r'(_\d+) = core::fmt::rt::Argument::<\'_>::new_display::<([^>]+)>\((?:copy|move) (_\d+)\) -> \[return: (bb\d+)', line)
            if m:
                arg_ty = m.group(2)
                arg_var = m.group(3)
                nxt = m.group(4)
                continue
            m = re.match(r'(_\d+) = const b"((?:[^"\\]|\\.)*)";', line)
            if m:
                template = decode_format(m.group(2))
                continue
            m = re.match(r'(_\d+) = std::fmt::Arguments::<\'_>::new::<\d+, 1>\(.*\) -> \[return: (bb\d+)', line)
            if m:
                nxt = m.group(2)
                continue
            if 'Formatter::<\'_>::write_fmt' in line:
                return defs, arg_var, arg_ty, template
            m = re.match(r'goto -> (bb\d+);', line)
            if m:
                nxt = m.group(1)
        if nxt is None:
            return None
        cur = nxt
    return None


def resolve(defs, var, numeral_ptr, n):
    """value (64-bit BV) of a MIR local along the path; numeral_ptr is the local holding &n"""
    seen = 0
    stack = [var]

    def val(v, depth=0):
        if depth > 20:
            raise ValueError('too deep')
        if v == numeral_ptr:
            return ('ptr', n)
        d = defs.get(v)
        if d is None:
            raise ValueError('unknown local %s' % v)
        k = d[0]
        if k == 'deref':
            p = val(d[1], depth + 1)
            if p[0] != 'ptr':
                raise ValueError('deref of non-pointer')
            return p[1] if isinstance(p[1], tuple) else ('val', p[1])
        if k == 'ref':
            return ('ptr', val(d[1], depth + 1))
        if k in ('tuple', 'field0'):
            return val(d[1], depth + 1)
        if k == 'call':
            x = val(d[2], depth + 1)
            x = x[1] if x[0] == 'val' else x
            if not z3.is_bv(x):
                raise ValueError('call on non-value')
            name = d[1]
            if name in ('unsigned_abs', 'wrapping_abs', 'abs'):
                return ('val', z3.If(x < 0, 0 - x, x))
            if name == 'wrapping_neg':
                return ('val', 0 - x)
            raise ValueError('unsupported call %s' % name)
        if k == 'unop':
            x = val(d[2], depth + 1)
            x = x[1] if x[0] == 'val' else x
            return ('val', (0 - x) if d[1] == 'Neg' else ~x)
        raise ValueError('unsupported %s' % k)

    r = val(var)
    while r[0] == 'ptr':
        r = r[1] if isinstance(r[1], tuple) else ('val', r[1])
    return r[1]


def check_kernel(timeout_ms=60000):
    """returns dict(verdict in unsat/sat/unknown/not-applicable, detail, ms, counterexample)"""
    t0 = time.time()
    try:
        mir = dump_mir()
    except Exception as e:
        return {'verdict': 'not-applicable', 'detail': 'MIR not available: %s' % e, 'ms': int((time.time() - t0) * 1000)}
    body = function_body(mir)
    if body is None:
        return {'verdict': 'not-applicable', 'detail': 'formatter function not found in MIR', 'ms': int((time.time() - t0) * 1000)}
    bbs = blocks(body)
    entry = None
    for name, lines in bbs.items():
        for i, line in enumerate(lines):
            m = re.match(r'(_\d+) = &\(\(\(\*_\d+\) as Numeral\)\.0: isize\);', line)
            if m:
                entry = (name, m.group(1))
    if entry is None:
        return {'verdict': 'not-applicable', 'detail': 'Numeral arm not found', 'ms': int((time.time() - t0) * 1000)}
    name, nptr = entry
    lines = bbs[name]
    text = ' '.join(lines)
    m = re.search(r'(_\d+) = copy \(\*%s\); (_\d+) = Lt\(move \1, const 0_isize\); switchInt\(move \2\) -> \[0: (bb\d+), otherwise: (bb\d+)\];' % nptr, text)
    if not m:
        return {'verdict': 'not-applicable', 'detail': 'sign test of the Numeral arm has an unexpected shape: %s' % text[:300],
                'ms': int((time.time() - t0) * 1000)}
    bb_nonneg, bb_neg = m.group(3), m.group(4)
    n = z3.BitVec('n', 64)
    try:
        pa = follow(bbs, bb_nonneg, nptr)
        pb = follow(bbs, bb_neg, nptr)
        if pa is None or pb is None:
            raise ValueError('path to write_fmt not recognised')
        rendered = []
        for (defs, arg_var, arg_ty, template), cond in ((pa, n >= 0), (pb, n < 0)):
            if template is None or arg_var is None:
                raise ValueError('format template or argument not recognised')
            arg = resolve(defs, arg_var, nptr, n)
            ty = arg_ty.lstrip('&')
            # mathematical values are carried in 128-bit vectors (wide enough for +-2^64): no Int/BV mixing
            if ty == 'usize':
                shown = z3.ZeroExt(64, arg)
            elif ty == 'isize':
                shown = z3.SignExt(64, arg)
            else:
                raise ValueError('argument type %s' % arg_ty)
            lits = [p[1] for p in template if p[0] == 'lit']
            if template == [('arg',)]:
                value = shown
            elif [p[0] for p in template] == ['lit', 'arg', 'lit'] and lits == ['$uminus(', ')']:
                value = 0 - shown
            else:
                raise ValueError('unexpected template %r' % (template,))
            rendered.append((cond, value, template, ty))
    except ValueError as e:
        return {'verdict': 'not-applicable', 'detail': 'Numeral arm has an unexpected shape: %s' % e, 'ms': int((time.time() - t0) * 1000)}
    s = z3.Solver()
    s.set('timeout', timeout_ms)
    wrong = z3.Or(*[z3.And(c, v != z3.SignExt(64, n)) for (c, v, _, _) in rendered])
    s.add(wrong)
    r = s.check()
    out = {'verdict': str(r), 'ms': int((time.time() - t0) * 1000),
           'detail': 'paths: ' + '; '.join('%s -> %s of %s' % ('n>=0' if i == 0 else 'n<0', t, ty) for i, (c, v, t, ty) in enumerate(rendered)),
           'smt2': '(set-logic ALL)\n' + s.to_smt2()}
    if r == z3.sat:
        out['counterexample'] = s.model()[n].as_signed_long()
    return out


if __name__ == '__main__':
    print(check_kernel())
