"""Reference model of external equivalence (DESIGN 5, C02): written from the definition in
Fandinno, Hansen, Lierler, Lifschitz, Temple (2023), *not* from anthem's source.

For a tight program P with input predicates In, its external behaviour is described by the completion
COMP[P] with the input predicates left open: one completed definition per non-input predicate and the
constraints. Completed definitions of private predicates are assumptions (they fix the private extents);
public definitions and constraints are what is claimed.

 forward  : UG and (left side as premise)  and private definitions of the right side  |=  right side's claims
 backward : UG and (right side as premise) and private definitions of the left side   |=  left side's claims
"""
import z3

from .sem import Ctx, asp_preds, fol_preds


def ug_info(ug):
    inputs, outputs, placeholders, assumptions, others = [], [], {}, [], []
    for e in ug[1:]:
        if e[0] == 'input':
            inputs.append((str(e[1][0]), int(e[1][1])))
        elif e[0] == 'output':
            outputs.append((str(e[1][0]), int(e[1][1])))
        elif e[0] == 'placeholder':
            placeholders[str(e[1])] = str(e[2])
        elif e[0] == 'anf':
            (assumptions if e[1] == 'assumption' else others).append(e)
    return inputs, outputs, placeholders, assumptions, others


def replace_placeholders_term(t, ph):
    tag = t[0]
    if tag == 'sym' and str(t[1]) in ph:
        return ({'i': 'ifc', 'g': 'gfc', 's': 'sfc'}[ph[str(t[1])]], t[1])
    if tag in ('neg', 'add', 'sub', 'mul'):
        return (tag,) + tuple(replace_placeholders_term(x, ph) for x in t[1:])
    return t


def replace_placeholders(f, ph):
    tag = f[0]
    if tag == 'atom':
        return f[:2] + tuple(replace_placeholders_term(t, ph) for t in f[2:])
    if tag == 'cmp':
        return ('cmp',) + tuple(replace_placeholders_term(x, ph) if i % 2 == 0 else x for i, x in enumerate(f[1:]))
    if tag == 'not':
        return ('not', replace_placeholders(f[1], ph))
    if tag in ('and', 'or', 'imp', 'rimp', 'iff'):
        return (tag, replace_placeholders(f[1], ph), replace_placeholders(f[2], ph))
    if tag in ('forall', 'exists'):
        return (tag, f[1], replace_placeholders(f[2], ph))
    return f


def closure(ctx, f, predmap=None):
    """Universal closure of a formula with free variables (annotated formulas are closed by anthem)."""
    from .sem import free_vars
    fv = sorted(free_vars(f))
    if not fv:
        return ctx.cl(f, predmap=predmap)
    env, bound = {}, []
    for (n, s) in fv:
        c = ctx.fresh_const('%s$%s' % (n, s), ctx.sort_of(s))
        env[(n, s)] = c
        bound.append(c)
    return z3.ForAll(bound, ctx.cl(f, env, predmap=predmap))


def program_completion(ctx, program, inputs, pred):
    """Clark completion of a mini-gringo program from its *rules* and the reference term semantics:
    for every non-input predicate p/n:  forall v ( p(v) <-> OR_{rules with head p} exists X (val(head args) = v and Body
    [and p(v) for a choice rule]) );  constraints: forall X not Body.
    pred(name, arity) -> z3 function. Returns (definitions: {(name, arity): z3}, constraints: [z3])."""
    saved = ctx.pred_override
    allp = sorted(asp_preds(program))
    ctx.pred_override = dict(saved)
    for (n, a) in allp:
        ctx.pred_override[(n, a, 'c')] = pred(n, a)
    try:
        defs = {}
        constraints = []
        bodies = {p: [] for p in allp if p not in inputs}
        for rule in program[1:]:
            head = rule[1]
            names = Ctx.rule_vars(rule)
            xs = [ctx.fresh_const('X_' + n, ctx.G) for n in names]
            env = dict(zip(names, xs))
            body = [ctx.body_lit(b, 'c', env) for b in rule[2]]
            if head[0] == 'falsity':
                inner = z3.Not(z3.And(*body)) if body else z3.BoolVal(False)
                constraints.append(z3.ForAll(xs, inner) if xs else inner)
                continue
            at = head[1]
            key = (str(at[1]), len(at) - 2)
            if key in inputs:
                raise ValueError('input predicate in a rule head')
            bodies[key].append((head[0], at, xs, env, body))
        for key, rs in sorted(bodies.items()):
            name, arity = key
            vv = [ctx.fresh_const('v', ctx.G) for _ in range(arity)]
            p = pred(name, arity)
            pv = p(*vv) if vv else p()
            disj = []
            for kind, at, xs, env, body in rs:
                pk = [ctx.gval_pkg(a, env) for a in at[2:]]
                bound = list(xs) + [x for q in pk for x in q[0]]
                conds = [q[1] for q in pk] + [q[2] == v for q, v in zip(pk, vv)] + body
                if kind == 'choice':
                    conds.append(pv)
                inner = z3.And(*conds) if conds else z3.BoolVal(True)
                disj.append(z3.Exists(bound, inner) if bound else inner)
            rhs = z3.Or(*disj) if disj else z3.BoolVal(False)
            eq = pv == rhs
            defs[key] = z3.ForAll(vv, eq) if vv else eq
        return defs, constraints
    finally:
        ctx.pred_override = saved


class Side:
    """One side of the task in reference form."""

    def __init__(self):
        self.stable = []       # assumptions usable in both directions (private definitions, universal assumptions)
        self.fwd_premises = []   # extra premises when this side is the premise of the forward direction
        self.claims_fwd = []   # what this side claims when it is the conclusion in the forward direction
        self.claims_bwd = []
        self.prem_fwd = []     # what this side offers as premise in the forward direction
        self.prem_bwd = []


def reference(ctx, kind, left_tree, right_program, ug, predmap_right_private):
    """Returns {'forward': (premises, conclusions), 'backward': (...)} as lists of z3 formulas.
    kind: 'program' (left is a program) or 'spec'. predmap_right_private(name, arity) gives the z3 function for a
    private predicate of the right program (renamed apart from the left side's private predicates)."""
    inputs, outputs, placeholders, assumptions, _ = ug_info(ug)
    ctx.placeholders = dict(placeholders)
    public = set(inputs) | set(outputs)
    ug_ass = [closure(ctx, replace_placeholders(a[4], placeholders)) for a in assumptions]

    def right_pred(n, a):
        if (n, a) in public:
            return ctx.pred(n, a)
        return predmap_right_private(n, a)

    rdefs, rcons = program_completion(ctx, right_program, set(inputs), right_pred)
    r_private = [rdefs[k] for k in sorted(rdefs) if k not in public]
    r_public = [rdefs[k] for k in sorted(rdefs) if k in public] + rcons

    if kind == 'program':
        ldefs, lcons = program_completion(ctx, left_tree, set(inputs), lambda n, a: ctx.pred(n, a))
        l_private = [ldefs[k] for k in sorted(ldefs) if k not in public]
        l_public = [ldefs[k] for k in sorted(ldefs) if k in public] + lcons
        stable = ug_ass + l_private + r_private
        return {'forward': (stable + l_public, r_public), 'backward': (stable + r_public, l_public)}

    # specification on the left
    s_ass = {'universal': [], 'forward': [], 'backward': []}
    s_spec = {'universal': [], 'forward': [], 'backward': []}
    for a in left_tree[1:]:
        f = closure(ctx, replace_placeholders(a[4], placeholders))
        if a[1] == 'assumption':
            s_ass[a[2]].append(f)
        elif a[1] == 'spec':
            s_spec[a[2]].append(f)
    stable = ug_ass + s_ass['universal'] + r_private
    fwd = (stable + s_ass['forward'] + s_spec['universal'] + s_spec['forward'], r_public)
    bwd = (stable + r_public, s_spec['universal'] + s_spec['backward'])
    return {'forward': fwd, 'backward': bwd}
